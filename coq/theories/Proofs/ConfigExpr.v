(** checkExpr on a well-formed expression; the member being rebuilt (slot); one printed audience clause (C10). *)
From Coq Require Import String Permutation.
From Shk Require Import Base.Prelude Model.Storyline Model.Config.
From Shk Require Import Proofs.ConfigText Proofs.ConfigRoles Proofs.ConfigCast Proofs.ConfigScript.
Open Scope Z_scope.

Lemma vname_eqb_eq a b : vname_eqb a b = true <-> a = b.
Proof.
  unfold vname_eqb. destruct a as [a1 a2], b as [b1 b2]. cbn.
  rewrite andb_true_iff, !bytes_eqb_eq. split; [intros [-> ->]; reflexivity|intros E; inversion E; auto].
Qed.

Lemma vname_eqb_refl a : vname_eqb a a = true.
Proof. apply vname_eqb_eq. reflexivity. Qed.

(** registration of the signal references of a dependency list *)
Definition reg1 (o : list vname) (d : vname) : list vname :=
  if is_nil (fst d) then o else add_obs o d.
Definition reg (o : list vname) (deps : list vname) : list vname := fold_left reg1 deps o.

Section Aud.
Variable orc : oracles.
(* the fixed part of the state during the audience phase *)
Variables (ti au se : list bytes) (ro : list role) (ac : list actor) (sc : list scenespec)
          (te : Z) (st : list bytes) (fr : option bytes) (an to co : Z).

Definition S (aud : list member) : cstate := mkState [] ti au se ro ac sc te st fr an to co aud.

Definition sigref_ok (d : vname) : bool := sigref_wf (S []) d.
Definition dep_ok (d : vname) : bool := dep_wf (S []) d.

Lemma dep_wf_S aud d : dep_wf (S aud) d = dep_ok d.
Proof. reflexivity. Qed.

(** ** checkExpr on a well-formed, inert expression whose variables are
    defined gives the expression back and registers its signals *)
Lemma dep_steps_replay aud : forall vs deps m acc,
  deps_match vs deps = true ->
  forallb dep_ok deps = true ->
  forallb (fun d => negb (is_nil (fst d)) || var_defined aud (snd d)) deps = true ->
  forall aud0,
  dep_steps (S aud0) aud (m, acc) vs = Ok (set_obs m (reg (m_obs m) deps), acc ++ deps).
Proof.
  induction vs as [|v vs IH]; intros deps m acc Hm Hok Hdef aud0; destruct deps as [|d deps]; try discriminate.
  - cbn. rewrite app_nil_r. destruct m; reflexivity.
  - cbn [deps_match] in Hm. apply andb_prop in Hm as [Hv Hm].
    cbn [forallb] in Hok, Hdef. apply andb_prop in Hok as [Hd Hok]. apply andb_prop in Hdef as [Hdd Hdef].
    unfold ovname_eqb in Hv. destruct (parse_dep v) as [d'|] eqn:Ep; [|discriminate].
    apply vname_eqb_eq in Hv. subst d'.
    cbn [dep_steps]. unfold dep_step. rewrite Ep. cbn [of_opt obind].
    unfold dep_ok, dep_wf in Hd. destruct d as [a g]. cbn [fst snd] in *.
    destruct a as [|a0 a].
    + cbn [is_nil] in Hd, Hdd. cbn [negb orb] in Hdd. unfold check. rewrite Hd, Hdd. cbn [obind].
      rewrite (IH deps) by assumption.
      unfold reg at 2. cbn [fold_left]. unfold reg1 at 2. cbn [fst is_nil].
      rewrite <- app_assoc. reflexivity.
    + cbn [is_nil] in Hd. unfold sigref_wf in Hd. cbn [fst snd] in Hd.
      apply andb_prop in Hd as [Hid Hd]. unfold check. rewrite Hid. cbn [obind c_actors c_roles S] in *.
      destruct (find_actor (a0 :: a) ac) as [act|] eqn:Ea; [|discriminate].
      cbn [of_opt obind].
      destruct (find_role (a_role act) ro) as [r|] eqn:Er; [|discriminate].
      unfold add_signal_source. cbn [snd].
      destruct (find_sig g (r_sigs r)) as [g0|] eqn:Eg; [|discriminate].
      cbn [obind].
      rewrite (IH deps) by assumption.
      unfold reg at 2. cbn [fold_left]. unfold reg1 at 2. cbn [fst is_nil m_obs set_obs].
      rewrite <- app_assoc. destruct m; reflexivity.
Qed.

Definition expr_ok (e : expr) : bool :=
  inert (x_src e) && expr_wf orc (S []) e.

Definition deps_defined (aud : list member) (e : expr) : bool :=
  forallb (var_defined aud) (plain_deps e).

Lemma deps_defined_alt aud e :
  deps_defined aud e = true ->
  forallb (fun d => negb (is_nil (fst d)) || var_defined aud (snd d)) (x_deps e) = true.
Proof.
  unfold deps_defined, plain_deps. induction (x_deps e) as [|d l IH]; [reflexivity|].
  destruct d as [a g]. cbn [filter forallb fst snd]. destruct a; cbn [is_nil map forallb negb orb snd].
  - intros H. apply andb_prop in H as [H1 H2]. rewrite H1. auto.
  - auto.
Qed.

Lemma check_expr_replay aud aud0 m e :
  expr_ok e = true ->
  deps_defined aud e = true ->
  check_expr orc (S aud0) aud m (x_src e) = Ok (set_obs m (reg (m_obs m) (x_deps e)), e).
Proof.
  intros Hok Hdef. unfold expr_ok, expr_wf in Hok. apply andb_prop in Hok as [Hin Hwf].
  unfold check_expr. cbn [c_pvars S]. rewrite (inert_preproc _ Hin). cbn [obind].
  destruct (o_expr_vars orc (x_src e)) as [vs|]; [|discriminate]. cbn [of_opt obind].
  apply andb_prop in Hwf as [Hm Hd].
  fold (S aud0).
  rewrite (dep_steps_replay aud vs (x_deps e) m []); auto using deps_defined_alt.
  cbn. destruct e; reflexivity.
Qed.

(** ** The member being rebuilt: absent so far, or the last one *)
Definition slot (pre : list member) (m : member) (aud : list member) : Prop :=
  (aud = pre /\ m = new_member (m_name m)) \/ aud = pre ++ [m].

Lemma find_member_absent n pre : mem_bytes n (map m_name pre) = false -> find_member n pre = None.
Proof. intros H. rewrite find_member_eq. apply (findk_none m_name). exact H. Qed.

Lemma slot_get pre m aud :
  slot pre m aud -> mem_bytes (m_name m) (map m_name pre) = false ->
  get_member aud (m_name m) = m.
Proof.
  intros [[-> E]| ->] Hn; unfold get_member.
  - rewrite find_member_absent by exact Hn. auto.
  - rewrite find_member_eq, (findk_self m_name) by exact Hn. reflexivity.
Qed.

Lemma put_member_absent pre m :
  mem_bytes (m_name m) (map m_name pre) = false -> put_member pre m = pre ++ [m].
Proof.
  induction pre as [|x pre IH]; cbn; [reflexivity|].
  intros H. apply orb_false_elim in H as [H1 H2]. rewrite H1, (IH H2). reflexivity.
Qed.

Lemma put_member_last pre m m' :
  mem_bytes (m_name m') (map m_name pre) = false -> m_name m = m_name m' ->
  put_member (pre ++ [m]) m' = pre ++ [m'].
Proof.
  induction pre as [|x pre IH]; cbn.
  - intros _ ->. rewrite bytes_eqb_refl. reflexivity.
  - intros H E. apply orb_false_elim in H as [H1 H2]. rewrite H1, (IH H2 E). reflexivity.
Qed.

Lemma slot_put pre m aud m' :
  slot pre m aud -> mem_bytes (m_name m) (map m_name pre) = false -> m_name m' = m_name m ->
  put_member aud m' = pre ++ [m'].
Proof.
  intros [[-> E]| ->] Hn En.
  - apply put_member_absent. rewrite En. exact Hn.
  - apply put_member_last; [rewrite En; exact Hn|auto].
Qed.

Lemma vars_of_app a b : vars_of (a ++ b) = vars_of a ++ vars_of b.
Proof. unfold vars_of. apply flat_map_app. Qed.

Lemma slot_vars pre m aud :
  slot pre m aud -> vars_of aud = vars_of pre ++ map as_var (m_assigns m).
Proof.
  intros [[-> E]| ->].
  - rewrite E. cbn. rewrite app_nil_r. reflexivity.
  - rewrite vars_of_app. cbn. rewrite app_nil_r. reflexivity.
Qed.

Lemma slot_audwith pre m aud :
  slot pre m aud -> mem_bytes (m_name m) (map m_name pre) = false ->
  aud_with (S aud) (m_name m) = pre ++ [m].
Proof.
  intros Hs Hn. unfold aud_with. cbn [c_aud S]. rewrite (slot_get _ _ _ Hs Hn).
  apply (slot_put pre m aud m Hs Hn eq_refl).
Qed.

Lemma var_defined_vars a b v : vars_of a = vars_of b -> var_defined a v = var_defined b v.
Proof. unfold var_defined. intros ->. reflexivity. Qed.

Lemma slot_new pre n : slot pre (new_member n) pre.
Proof. left. auto. Qed.

Lemma slot_last pre m : slot pre m (pre ++ [m]).
Proof. right. reflexivity. Qed.

(** ** One printed clause of the member [n], the member being in its slot.
    [defd] = the computed variables defined so far: those of the earlier
    members and the member's own assignments. *)
Section Member.
Variables (pre : list member) (n : bytes).
Hypothesis Hn : mem_bytes n (map m_name pre) = false.
Hypothesis Hid : ident_ok n = true.

Definition M c a e o y p := mkMember n c a e o y p FNonZero FIgnore.

Lemma with_member_slot aud m m' :
  slot pre m aud -> m_name m = n -> m_name m' = n ->
  with_member (S aud) m' = S (pre ++ [m']).
Proof.
  intros Hs E E'. unfold with_member, set_aud. cbn [c_aud S].
  rewrite (slot_put pre m aud m'); [reflexivity|exact Hs|rewrite E; exact Hn|congruence].
Qed.

Lemma deps_defined_slot aud m e :
  slot pre m aud ->
  all_defined (vars_of pre ++ map as_var (m_assigns m)) (plain_deps e) = true ->
  deps_defined (pre ++ [m]) e = true.
Proof.
  intros Hs H. unfold deps_defined, var_defined. rewrite vars_of_app. cbn. rewrite app_nil_r. exact H.
Qed.

(* audits *)
Lemma apply_cond aud e o y p :
  slot pre (M None [] None o y p) aud ->
  expr_ok e = true ->
  all_defined (vars_of pre) (plain_deps e) = true ->
  apply orc (S aud) (if bytes_eqb (x_src e) true_src then CAuditsAll n else CAudits n (x_src e))
  = Ok (S (pre ++ [M (Some e) [] None (reg o (x_deps e)) y p])).
Proof.
  intros Hs Hok Hdef.
  assert (Hg : get_member aud n = M None [] None o y p) by (apply (slot_get _ _ _ Hs Hn)).
  assert (Ha : aud_with (S aud) n = pre ++ [M None [] None o y p]) by (apply (slot_audwith _ _ _ Hs Hn)).
  assert (Hd : deps_defined (pre ++ [M None [] None o y p]) e = true).
  { apply (deps_defined_slot aud _ e Hs). cbn. rewrite app_nil_r. exact Hdef. }
  destruct (bytes_eqb (x_src e) true_src) eqn:Et.
  - apply bytes_eqb_eq in Et.
    cbn [apply]. unfold check. rewrite Hid. cbn [c_aud S]. fold (S aud). rewrite Ha, Hg. cbn [m_cond M].
    rewrite <- Et. rewrite (check_expr_replay _ aud _ e Hok Hd). cbn [obind fst snd].
    rewrite (with_member_slot aud (M None [] None o y p)); auto.
  - cbn [apply]. unfold check. rewrite Hid. cbn [c_aud S]. fold (S aud). rewrite Ha, Hg. cbn [m_cond M].
    rewrite (check_expr_replay _ aud _ e Hok Hd). cbn [obind fst snd].
    rewrite (with_member_slot aud (M None [] None o y p)); auto.
Qed.


Lemma decode_mode_text md : md <> ASingle -> decode_mode (mode_text md) = Some md.
Proof. destruct md; try reflexivity. congruence. Qed.

Definition assign_ok (a : assign) : bool := assign_wf a && expr_ok (as_expr a).

(* collects / computes *)
Lemma apply_assign_clause aud c asg a o y p :
  slot pre (M (Some c) asg None o y p) aud ->
  assign_ok a = true ->
  all_defined (vars_of pre ++ map as_var asg) (plain_deps (as_expr a)) = true ->
  defined_in (vars_of pre ++ map as_var asg) (as_var a) = false ->
  apply orc (S aud) (print_assign n a)
  = Ok (S (pre ++ [M (Some c) (asg ++ [a]) None (reg o (x_deps (as_expr a))) y p])).
Proof.
  intros Hs Hok Hdef Hfresh.
  set (m := M (Some c) asg None o y p) in *.
  assert (Hg : get_member aud n = m) by (apply (slot_get _ _ _ Hs Hn)).
  assert (Ha : aud_with (S aud) n = pre ++ [m]) by (apply (slot_audwith _ _ _ Hs Hn)).
  assert (Hd : deps_defined (pre ++ [m]) (as_expr a) = true) by (apply (deps_defined_slot aud _ _ Hs); exact Hdef).
  unfold assign_ok, assign_wf in Hok. apply andb_prop in Hok as [Hw Hex]. apply andb_prop in Hw as [Hv Hmode].
  assert (Hcore : forall md k, as_mode a = md -> as_n a = k ->
            apply_assign orc (S aud) n (as_var a) md k (x_src (as_expr a))
            = Ok (S (pre ++ [M (Some c) (asg ++ [a]) None (reg o (x_deps (as_expr a))) y p]))).
  { intros md k Emd Ek. unfold apply_assign. cbn [c_aud S]. fold (S aud). rewrite Ha, Hg.
    unfold ensure_cond. cbn [m_cond m M]. cbn [obind].
    rewrite (check_expr_replay _ aud _ _ Hex Hd). cbn [obind fst snd].
    unfold var_defined. rewrite vars_of_app. cbn [vars_of flat_map m_assigns m M]. rewrite app_nil_r.
    unfold check. rewrite Hfresh. cbn [negb].
    rewrite (with_member_slot aud m); auto.
    unfold set_assigns, set_obs, M, m. cbn.
    replace (mkAssign (as_var a) (as_expr a) md k) with a by (destruct a; cbn in *; subst; reflexivity).
    reflexivity. }
  unfold print_assign. destruct (as_mode a) eqn:Em.
  - apply Z.eqb_eq in Hmode. cbn [apply]. unfold check. rewrite Hid, Hv. apply Hcore; auto.
  - apply Z.leb_le in Hmode. cbn [apply]. unfold check. rewrite Hid, Hv.
    rewrite (decode_mode_text AFirst) by discriminate. cbn [of_opt obind]. rewrite (atoi_itoa_z _ Hmode). cbn [of_opt obind].
    rewrite Z2N.id by lia. assert (1 <=? as_n a = true) as -> by (apply Z.leb_le; lia). apply Hcore; auto.
  - apply Z.leb_le in Hmode. cbn [apply]. unfold check. rewrite Hid, Hv.
    rewrite (decode_mode_text ALast) by discriminate. cbn [of_opt obind]. rewrite (atoi_itoa_z _ Hmode). cbn [of_opt obind].
    rewrite Z2N.id by lia. assert (1 <=? as_n a = true) as -> by (apply Z.leb_le; lia). apply Hcore; auto.
  - apply Z.leb_le in Hmode. cbn [apply]. unfold check. rewrite Hid, Hv.
    rewrite (decode_mode_text ATop) by discriminate. cbn [of_opt obind]. rewrite (atoi_itoa_z _ Hmode). cbn [of_opt obind].
    rewrite Z2N.id by lia. assert (1 <=? as_n a = true) as -> by (apply Z.leb_le; lia). apply Hcore; auto.
  - apply Z.leb_le in Hmode. cbn [apply]. unfold check. rewrite Hid, Hv.
    rewrite (decode_mode_text ABottom) by discriminate. cbn [of_opt obind]. rewrite (atoi_itoa_z _ Hmode). cbn [of_opt obind].
    rewrite Z2N.id by lia. assert (1 <=? as_n a = true) as -> by (apply Z.leb_le; lia). apply Hcore; auto.
Qed.

(* expects *)
Lemma apply_expect_clause aud c asg f e o y p :
  slot pre (M (Some c) asg None o y p) aud ->
  mem_bytes f modalities = true ->
  expr_ok e = true ->
  all_defined (vars_of pre ++ map as_var asg) (plain_deps e) = true ->
  apply orc (S aud) (CExpects n f (x_src e))
  = Ok (S (pre ++ [M (Some c) asg (Some (f, e)) (reg o (x_deps e)) y p])).
Proof.
  intros Hs Hf Hex Hdef.
  set (m := M (Some c) asg None o y p) in *.
  assert (Hg : get_member aud n = m) by (apply (slot_get _ _ _ Hs Hn)).
  assert (Ha : aud_with (S aud) n = pre ++ [m]) by (apply (slot_audwith _ _ _ Hs Hn)).
  assert (Hd : deps_defined (pre ++ [m]) e = true) by (apply (deps_defined_slot aud _ _ Hs); exact Hdef).
  cbn [apply]. unfold check. rewrite Hid. cbn [c_aud S]. fold (S aud). rewrite Ha, Hg.
  unfold ensure_cond. cbn [m_cond m_expect m M obind]. rewrite Hf.
  rewrite (check_expr_replay _ aud _ _ Hex Hd). cbn [obind fst snd].
  rewrite (with_member_slot aud m); auto.
Qed.

Lemma add_obs_fold o v : fold_left add_obs [v] o = add_obs o v.
Proof. reflexivity. Qed.

(* watches *)
Lemma apply_watch_clause aud c asg e o y p v :
  slot pre (M c asg e o y p) aud ->
  dep_ok v = true ->
  (is_nil (fst v) = true -> defined_in (vars_of pre ++ map as_var asg) (snd v) = true) ->
  apply orc (S aud) (print_watch n v)
  = Ok (S (pre ++ [M c asg e (add_obs o v) y p])).
Proof.
  intros Hs Hok Hdef.
  set (m := M c asg e o y p) in *.
  assert (Hg : get_member aud n = m) by (apply (slot_get _ _ _ Hs Hn)).
  unfold print_watch. destruct v as [a g]. cbn [fst snd] in *. unfold dep_ok, dep_wf in Hok. cbn [fst snd] in Hok.
  destruct a as [|a0 a].
  - cbn [is_nil] in Hok. cbn [apply]. unfold check. rewrite Hid, Hok. cbn [c_aud S].
    unfold var_defined. rewrite (slot_vars _ _ _ Hs). cbn [m_assigns m M]. rewrite (Hdef eq_refl).
    rewrite Hg. fold (S aud). rewrite (with_member_slot aud m); auto.
  - cbn [is_nil] in Hok. unfold sigref_wf in Hok. cbn [fst snd c_actors c_roles S] in Hok.
    apply andb_prop in Hok as [Hids Hok]. apply andb_prop in Hids as [Hia Hig].
    destruct (find_actor (a0 :: a) ac) as [act|] eqn:Ea; [|discriminate].
    destruct (find_role (a_role act) ro) as [r|] eqn:Er; [|discriminate].
    destruct (find_sig g (r_sigs r)) as [g0|] eqn:Eg; [|discriminate].
    cbn [apply]. unfold check. rewrite Hid, Hig. unfold select_actors, check. rewrite Hia.
    cbn [c_actors c_roles S]. rewrite Ea. cbn [of_opt obind]. rewrite Er. cbn [obind fold_left c_aud].
    change (c_aud (S aud)) with aud.
    rewrite Hg. unfold add_signal_source. cbn [snd]. rewrite Eg.
    assert (En : a_name act = a0 :: a).
    { apply find_some in Ea. destruct Ea as [_ Ea]. apply bytes_eqb_eq in Ea. auto. }
    rewrite En. cbn [obind]. rewrite (with_member_slot aud m); auto.
Qed.

Lemma apply_measures_clause aud c asg e o p l :
  slot pre (M c asg e o [] p) aud ->
  is_nil l = false ->
  apply orc (S aud) (CMeasures n l) = Ok (S (pre ++ [M c asg e o l p])).
Proof.
  intros Hs Hl. set (m := M c asg e o [] p) in *.
  assert (Hg : get_member aud n = m) by (apply (slot_get _ _ _ Hs Hn)).
  cbn [apply]. unfold check. rewrite Hid, Hl. cbn [negb c_aud S]. rewrite Hg.
  fold (S aud). rewrite (with_member_slot aud m); auto.
Qed.

Lemma apply_onlyhelps_clause aud c asg e o y :
  slot pre (M c asg e o y false) aud ->
  apply orc (S aud) (COnlyHelps n) = Ok (S (pre ++ [M c asg e o y true])).
Proof.
  intros Hs. set (m := M c asg e o y false) in *.
  assert (Hg : get_member aud n = m) by (apply (slot_get _ _ _ Hs Hn)).
  cbn [apply]. unfold check. rewrite Hid. cbn [c_aud S]. rewrite Hg.
  fold (S aud). rewrite (with_member_slot aud m); auto.
Qed.

End Member.
End Aud.
