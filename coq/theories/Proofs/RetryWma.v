(** The WithMaxAttempts loop of Model/Retry.v (property C17): for every
    success pattern of the retried function and every label sequence. *)
From Shk Require Import Base.Prelude Model.Retry Proofs.RetryProofs Proofs.RetryInv.
From Coq Require Import ZifyBool.
Open Scope Z_scope.

(** In the reset state the loop's next observable event is the first attempt. *)
Lemma idle_reset_step s l s' ob :
  ph s = PIdle -> is_reset s = true -> step s l = Some (s', ob) ->
  match l with LReset | LCallNextCh _ => True | _ =>
    ob = OYield true \/ (ob = ONone /\ is_reset s' = true /\ ph s' = PIdle) end.
Proof.
  intros Hp Hr H. step_inv H; cbn; auto; try congruence.
Qed.

Definition all_failed (succ : Z -> bool) (m : Z) : Prop := forall k, 0 <= k < m -> succ k = false.

Definition WInv (succ : Z -> bool) (n : Z) (c0 x0 : bool) (w : wstate) : Prop :=
  wn w = n /\ 0 <= wcalls w /\
  match wpc_ w with
  | WArgError => n <= 0 /\ wcalls w = 0
  | WLoop =>
      wcalls w < n /\ all_failed succ (wcalls w) /\
      (c0 || x0 = false ->
       (is_reset (wr w) = true /\ ph (wr w) = PIdle /\ wcalls w = 0) \/ 1 <= wcalls w)
  | WDone WNil =>
      1 <= wcalls w <= n /\ all_failed succ (wcalls w - 1) /\ succ (wcalls w - 1) = true
  | WDone WErr =>
      wcalls w <= n /\ all_failed succ (wcalls w) /\ (c0 || x0 = false -> 1 <= wcalls w)
  end.

Lemma winv_start succ o n c0 x0 : WInv succ n c0 x0 (wstart o n c0 x0).
Proof.
  unfold WInv, wstart, all_failed. cbn. split; [reflexivity|]. split; [lia|].
  destruct (n <=? 0) eqn:E.
  - lia.
  - split; [lia|]. split; [intros; lia|]. intros ->. left. cbn. auto.
Qed.

Lemma all_failed_succ succ m : all_failed succ m -> succ m = false -> all_failed succ (m + 1).
Proof.
  intros H Hm k Hk. destruct (Z.eq_dec k m) as [->|]; [exact Hm | apply H; lia].
Qed.

Lemma winv_step succ n c0 x0 w l w' :
  WInv succ n c0 x0 w -> wstep succ w l = Some w' -> WInv succ n c0 x0 w'.
Proof.
  intros (Hn & Hc & Hpc) H. unfold wstep in H.
  destruct (wpc_ w) eqn:Epc; try discriminate.
  destruct Hpc as (Hlt & Hf & Hfirst).
  assert (Hl : match l with LReset | LCallNextCh _ => False | _ => True end).
  { destruct l; auto; discriminate. }
  destruct (step (wr w) l) as [[r' ob]|] eqn:Es; [|destruct l; discriminate].
  assert (Hfirst' : c0 || x0 = false -> wcalls w = 0 ->
                    ob = OYield true \/ (ob = ONone /\ is_reset r' = true /\ ph r' = PIdle)).
  { intros E0 Ec. destruct (Hfirst E0) as [(Hr & Hp & _)|]; [|lia].
    pose proof (idle_reset_step _ _ _ _ Hp Hr Es) as X. destruct l; auto; contradiction. }
  assert (H' : (match ob with
                | OYield true =>
                    if succ (wcalls w)
                    then Some {| wr := r'; wn := wn w; wcalls := wcalls w + 1; wpc_ := WDone WNil |}
                    else if wn w <=? wcalls w + 1
                    then Some {| wr := r'; wn := wn w; wcalls := wcalls w + 1; wpc_ := WDone WErr |}
                    else Some {| wr := r'; wn := wn w; wcalls := wcalls w + 1; wpc_ := WLoop |}
                | OYield false =>
                    Some {| wr := r'; wn := wn w; wcalls := wcalls w; wpc_ := WDone (after_loop r' (wcalls w)) |}
                | _ => Some {| wr := r'; wn := wn w; wcalls := wcalls w; wpc_ := WLoop |}
                end) = Some w').
  { destruct l; try contradiction; exact H. }
  clear H.
  destruct ob as [|[|]|c|e].
  - (* ONone *)
    inversion H'; subst w'; clear H'. unfold WInv; cbn. repeat split; auto.
    intros E0. destruct (Z.eq_dec (wcalls w) 0) as [Ez|Ez]; [|right; lia].
    destruct (Hfirst' E0 Ez) as [X|(_ & Hr & Hp)]; [discriminate|]. left. auto.
  - (* yield true: fn is called *)
    destruct (succ (wcalls w)) eqn:Esucc.
    + inversion H'; subst w'; clear H'. unfold WInv; cbn. repeat split; auto; try lia.
      * replace (wcalls w + 1 - 1) with (wcalls w) by lia. exact Hf.
      * replace (wcalls w + 1 - 1) with (wcalls w) by lia. exact Esucc.
    + destruct (wn w <=? wcalls w + 1) eqn:En; inversion H'; subst w'; clear H'; unfold WInv; cbn;
        repeat split; auto; try lia; try (apply all_failed_succ; assumption).
  - (* yield false: the loop ends *)
    inversion H'; subst w'; clear H'. unfold WInv; cbn.
    assert (Ea : after_loop r' (wcalls w) = WErr).
    { unfold after_loop. destruct (0 <? wcalls w); [reflexivity|]. destruct (cancelled r'); reflexivity. }
    rewrite Ea. repeat split; auto; try lia.
    intros E0. destruct (Z.eq_dec (wcalls w) 0) as [Ez|Ez]; [|lia].
    destruct (Hfirst' E0 Ez) as [X|(X & _)]; discriminate.
  - (* OChan: impossible, NextCh is not called *)
    exfalso. clear H'. step_inv Es; contradiction.
  - (* OResetDone: impossible *)
    exfalso. clear H'. step_inv Es; contradiction.
Qed.

Lemma wreachable_inv succ o n c0 x0 w : wreachable succ o n c0 x0 w -> WInv succ n c0 x0 w.
Proof. induction 1; [apply winv_start | eapply winv_step; eauto]. Qed.

(** The statement of the property, for every pattern and schedule. *)
Lemma with_max_attempts succ o n c0 x0 w r :
  1 <= n -> wreachable succ o n c0 x0 w -> wpc_ w = WDone r ->
  0 <= wcalls w <= n /\
  (c0 || x0 = false -> 1 <= wcalls w) /\
  (r = WNil <-> exists k, 0 <= k < wcalls w /\ succ k = true) /\
  (wcalls w = 0 -> r = WErr).
Proof.
  intros Hn R Hd. destruct (wreachable_inv _ _ _ _ _ _ R) as (_ & Hc & Hpc). rewrite Hd in Hpc.
  destruct r.
  - destruct Hpc as (Hb & Hf & Hs).
    split; [lia|]. split; [intros; lia|]. split; [|intros; lia].
    split; [|reflexivity]. intros _. exists (wcalls w - 1). split; [lia | exact Hs].
  - destruct Hpc as (Hb & Hf & H1).
    split; [lia|]. split; [exact H1|]. split; [|reflexivity].
    split; [discriminate|]. intros (k & Hk & Hs). rewrite (Hf k Hk) in Hs. discriminate.
Qed.

(** The function is never called more than n times, whether or not the loop has ended. *)
Lemma wma_calls_le_n succ o n c0 x0 w :
  1 <= n -> wreachable succ o n c0 x0 w -> 0 <= wcalls w <= n.
Proof.
  intros Hn R. destruct (wreachable_inv _ _ _ _ _ _ R) as (_ & Hc & Hpc).
  destruct (wpc_ w) as [| |[|]]; lia.
Qed.

(** n <= 0: an error, no call, no step. *)
Lemma wma_bad_n succ o n c0 x0 w :
  n <= 0 -> wreachable succ o n c0 x0 w -> w = wstart o n c0 x0 /\ wpc_ w = WArgError /\ wcalls w = 0.
Proof.
  intros Hn R. induction R as [|w l w' R IH Hs].
  - unfold wstart; cbn. destruct (n <=? 0) eqn:E; [auto|lia].
  - destruct IH as (-> & Hp & _). unfold wstep in Hs. rewrite Hp in Hs. discriminate.
Qed.

(** Started with the closer already closed or the context already cancelled:
    no call at all, unless a select polled with its timer already fired. *)
Definition stopped_quiet (w : wstate) : Prop :=
  closed (wr w) || cancelled (wr w) = true /\ is_reset (wr w) = false /\ wcalls w = 0 /\
  (forall d el, ph (wr w) <> PBlocked d el).

Lemma stopped_quiet_step succ w l w' :
  stopped_quiet w -> l <> LPoll (Some SelTimer) -> wstep succ w l = Some w' -> stopped_quiet w'.
Proof.
  intros (Hc & Hr & Hz & Hb) Hl H. unfold wstep in H.
  destruct (wpc_ w); try discriminate.
  destruct (step (wr w) l) as [[r' ob]|] eqn:Es; [|destruct l; discriminate].
  assert (Hq : closed r' || cancelled r' = true /\ is_reset r' = false /\
               (forall d el, ph r' <> PBlocked d el) /\ ob <> OYield true).
  { clear H. step_inv Es; cbn [ropts cur is_reset closed cancelled ph set_ph yield_timer] in *;
      try congruence; repeat split; try assumption; try discriminate; try congruence;
      try (rewrite ?orb_true_r; reflexivity);
      try (intros ? ? E; rewrite ?Hph in *; try discriminate; eapply Hb; eauto; fail).
    all: try (exfalso; eapply Hb; eauto; fail).
    all: try (destruct (closed s); destruct (cancelled s); cbn in *; congruence).
    all: try (exfalso; lia). }
  destruct Hq as (Hc' & Hr' & Hb' & Hob).
  destruct ob as [|[|]|c|e]; try congruence;
    (destruct l; try discriminate; inversion H; subst w'; unfold stopped_quiet; cbn; auto).
Qed.

Lemma stopped_quiet_start o n c0 x0 : c0 || x0 = true -> stopped_quiet (wstart o n c0 x0).
Proof.
  intros H. unfold stopped_quiet, wstart, start. cbn. rewrite H. cbn. repeat split; auto. discriminate.
Qed.

Lemma stopped_quiet_run succ ls : forall w w',
  stopped_quiet w -> ~ In (LPoll (Some SelTimer)) ls -> wrun succ w ls = Some w' -> stopped_quiet w'.
Proof.
  induction ls as [|l ls IH]; intros w w' Hq Hn H; cbn [wrun] in H.
  - inversion H; subst; exact Hq.
  - destruct (wstep succ w l) as [w1|] eqn:E; [|discriminate].
    apply (IH w1); auto.
    + eapply stopped_quiet_step; eauto. intros ->. apply Hn. left. reflexivity.
    + intros Hin. apply Hn. right. exact Hin.
Qed.

Lemma closed_start_never_calls succ o n c0 x0 ls w :
  c0 || x0 = true -> ~ In (LPoll (Some SelTimer)) ls ->
  wrun succ (wstart o n c0 x0) ls = Some w -> wcalls w = 0.
Proof.
  intros H Hn Hr. destruct (stopped_quiet_run succ ls _ _ (stopped_quiet_start o n c0 x0 H) Hn Hr) as (_ & _ & Hz & _).
  exact Hz.
Qed.

Lemma wrun_reachable succ o n c0 x0 ls : forall w w',
  wreachable succ o n c0 x0 w -> wrun succ w ls = Some w' -> wreachable succ o n c0 x0 w'.
Proof.
  induction ls as [|l ls IH]; intros w w' R H; cbn [wrun] in H.
  - inversion H; subst; exact R.
  - destruct (wstep succ w l) as [w1|] eqn:E; [|discriminate].
    apply (IH w1); auto. eapply wreach_step; eauto.
Qed.
