(** C14 — soundness of the reflective checker of Model/Access.v, and the
    order-theoretic facts about [hb]. *)
From Shk Require Import Base.Prelude Model.Access.
From Coq Require Import String.
Open Scope string_scope.

Lemma comp_eqb_eq a b : comp_eqb a b = true <-> a = b.
Proof. destruct a, b; cbn; split; intros H; try reflexivity; discriminate. Qed.

(** [hb] is a strict partial order on the components. *)
Lemma hb_irrefl : forall a, hbb a a = false.
Proof. destruct a; vm_compute; reflexivity. Qed.

Lemma hb_trans_b : forall a b c, hbb a b && hbb b c && negb (hbb a c) = false.
Proof. destruct a, b, c; vm_compute; reflexivity. Qed.

Lemma hb_trans : forall a b c, hb a b -> hb b c -> hb a c.
Proof.
  unfold hb. intros a b c H1 H2. pose proof (hb_trans_b a b c) as H.
  destruct (hbb a c) eqn:E; [reflexivity|]. rewrite H1, H2 in H. cbn [andb negb] in H. discriminate H.
Qed.

Lemma hb_base : forall a b, In (a, b) base_edges -> hb a b.
Proof.
  intros a b H. unfold hb. cbn in H.
  repeat (destruct H as [H|H]; [inversion H; subst; vm_compute; reflexivity|]). contradiction.
Qed.

(** the workers of a play run concurrently: the protocol does not rest on any
    order between them *)
Lemma workers_concurrent :
  forall a b, In a [Audition; Collector; SpotMgr; SpotReader; Prompter; Line; CondMid; MainWait] ->
              In b [Audition; Collector; SpotReader; Prompter; CondMid; MainWait] ->
              a <> b -> (a, b) <> (SpotMgr, SpotReader) -> (a, b) <> (Prompter, Line) ->
              hbb a b = false.
Proof.
  intros a b Ha Hb. cbn in Ha, Hb.
  repeat (destruct Ha as [<-|Ha]); try contradiction;
    repeat (destruct Hb as [<-|Hb]); try contradiction; intros; try reflexivity; try congruence.
Qed.

Lemma conflictb_spec a b : conflict a b -> conflictb a b = true.
Proof.
  intros (Hc & Hw & Ha & Hl & Hm1 & Hm2). unfold conflictb.
  rewrite Hc, String.eqb_refl. cbn [andb].
  assert (Hw' : is_write (s_kind (e_site a)) || is_write (s_kind (e_site b)) = true)
    by (destruct Hw as [-> | ->]; cbn; [reflexivity|apply orb_true_r]).
  rewrite Hw'. cbn [andb].
  assert (H1 : sync_eqb (s_sync (e_site a)) Atomic && sync_eqb (s_sync (e_site b)) Atomic = false).
  { destruct (s_sync (e_site a)) eqn:E1, (s_sync (e_site b)) eqn:E2; cbn; try reflexivity. exfalso. apply Ha. split; reflexivity. }
  assert (H2 : sync_eqb (s_sync (e_site a)) Locked && sync_eqb (s_sync (e_site b)) Locked = false).
  { destruct (s_sync (e_site a)) eqn:E1, (s_sync (e_site b)) eqn:E2; cbn; try reflexivity. exfalso. apply Hl. split; reflexivity. }
  rewrite H1, H2. cbn [negb andb].
  destruct (s_sync (e_site a)); try (exfalso; apply Hm1; reflexivity);
    destruct (s_sync (e_site b)); try (exfalso; apply Hm2; reflexivity); reflexivity.
Qed.

Lemma pair_ok_sound a b :
  pair_ok a b = true -> conflict a b ->
  hb (e_comp a) (e_comp b) \/ hb (e_comp b) (e_comp a) \/ same_component a b.
Proof.
  unfold pair_ok. intros H Hc. rewrite (conflictb_spec a b Hc) in H. cbn [negb orb] in H.
  destruct (hbb (e_comp a) (e_comp b)) eqn:E1; [left; exact E1|].
  destruct (hbb (e_comp b) (e_comp a)) eqn:E2; [right; left; exact E2|].
  cbn [orb] in H. right. right. unfold same_componentb in H. apply andb_true_iff in H. destruct H as [H1 H2].
  split; [apply comp_eqb_eq; exact H1|].
  apply orb_true_iff in H2. destruct H2 as [H2|H2]; [left; apply negb_true_iff; exact H2|right; exact H2].
Qed.

Lemma subset_incl a b : subset a b = true -> incl a b.
Proof.
  unfold subset. rewrite forallb_forall. intros H x Hx. specialize (H x Hx).
  apply existsb_exists in H. destruct H as (y & Hy & E). apply comp_eqb_eq in E. subst. exact Hy.
Qed.

Lemma has_any_in cs : has_any cs = false -> ~ In Any cs.
Proof.
  unfold has_any. intros H Hin. assert (existsb (comp_eqb Any) cs = true).
  { apply existsb_exists. exists Any. split; [exact Hin|reflexivity]. }
  congruence.
Qed.

Lemma str_pair_eqb_eq a b : str_pair_eqb a b = true <-> a = b.
Proof.
  destruct a as [a1 a2], b as [b1 b2]. unfold str_pair_eqb. cbn [fst snd].
  rewrite andb_true_iff, !String.eqb_eq. split; [intros [-> ->]; reflexivity|intros E; inversion E; auto].
Qed.

Lemma is_nil_false {A} (l : list A) : is_nil l = false -> l <> [].
Proof. destruct l; [discriminate|intros _; discriminate]. Qed.

Lemma mem_str_in x l : mem_str x l = true -> In x l.
Proof.
  unfold mem_str. intros H. apply existsb_exists in H. destruct H as (y & Hy & E).
  apply String.eqb_eq in E. subst. exact Hy.
Qed.

Lemma callers_in calls f c : In (c, f) calls -> In c (callers calls f).
Proof.
  intros H. unfold callers. apply in_map_iff. exists (c, f). split; [reflexivity|].
  apply filter_In. split; [exact H|]. cbn. apply String.eqb_refl.
Qed.

(** If the check succeeds on what the translator extracted, then, with [cl]
    the classification (the hand-written map, and for unlisted functions the
    union of their callers' components): no two conflicting accesses are
    unordered; every write to a message field lies in a function only producers
    run; every access lies in a classified function; every unlisted function
    that holds accesses (and every unlisted caller above it) does not escape,
    has callers, and each caller is classified within its classification; the
    hand-written map is closed under the package's static calls; the skeleton,
    the cells, the aliases and the message types are the expected ones. *)
Theorem protocol_sound : forall sites calls skeleton tracked aliases messages esc,
  full_check sites calls skeleton tracked aliases messages esc = true ->
  let cl := cls calls esc in
  (forall a b, In a (expand cl sites) -> In b (expand cl sites) -> conflict a b ->
     hb (e_comp a) (e_comp b) \/ hb (e_comp b) (e_comp a) \/ same_component a b)
  /\ (forall s, In s sites -> s_sync s = Msg ->
        cl (s_func s) <> [] /\ incl (cl (s_func s)) (producers_of (s_cell s)))
  /\ (forall s, In s sites -> cl (s_func s) <> [])
  /\ (forall s, In s sites -> comps_of (s_func s) = [] -> In (s_func s) (support sites calls))
  /\ (forall f, In f (support sites calls) ->
        ~ In f esc /\ callers calls f <> [] /\
        forall c, In (c, f) calls ->
          cl c <> [] /\ incl (cl c) (cl f) /\ (comps_of c <> [] \/ In c (support sites calls)))
  /\ (forall f g, In (f, g) calls -> comps_of g <> [] -> ~ In Any (comps_of g) ->
        cl f <> [] /\ incl (cl f) (comps_of g))
  /\ skeleton = expected_skeleton /\ tracked = cells /\ aliases = expected_aliases
  /\ messages = map fst producers.
Proof.
  intros sites calls skeleton tracked aliases messages esc H cl. unfold full_check in H. fold cl in H.
  apply andb_true_iff in H; destruct H as [H Hal].
  apply andb_true_iff in H; destruct H as [H Htr].
  apply andb_true_iff in H; destruct H as [H Hsk].
  apply andb_true_iff in H; destruct H as [H Hed].
  apply andb_true_iff in H; destruct H as [H Hinh].
  apply andb_true_iff in H; destruct H as [H Hmp].
  apply andb_true_iff in H; destruct H as [H Hms].
  apply andb_true_iff in H; destruct H as [Hpairs Hmsg].
  split; [|split; [|split; [|split; [|split; [|split; [|split; [|split; [|split]]]]]]]].
  - intros a b Ha Hb Hc. rewrite forallb_forall in Hpairs. specialize (Hpairs a Ha).
    rewrite forallb_forall in Hpairs. apply pair_ok_sound; [apply Hpairs; exact Hb|exact Hc].
  - intros s Hs Hm. rewrite forallb_forall in Hmsg. specialize (Hmsg s Hs). unfold msg_ok in Hmsg.
    rewrite Hm in Hmsg. cbn [sync_eqb negb orb] in Hmsg. apply andb_true_iff in Hmsg. destruct Hmsg as [M1 M2].
    split; [apply is_nil_false; apply negb_true_iff; exact M1|apply subset_incl; exact M2].
  - intros s Hs. rewrite forallb_forall in Hmp. specialize (Hmp s Hs).
    apply is_nil_false. apply negb_true_iff. exact Hmp.
  - intros s Hs Hn. unfold support.
    assert (Hin : In (s_func s) (filter (fun f => is_nil (comps_of f)) (map s_func sites))).
    { apply filter_In. split; [apply in_map; exact Hs|rewrite Hn; reflexivity]. }
    revert Hin. generalize (filter (fun f => is_nil (comps_of f)) (map s_func sites)). generalize 8%nat.
    intros n; destruct n as [|n]; intros l Hin; cbn [up]; [exact Hin|].
    destruct (filter (fun c => is_nil (comps_of c)) (flat_map (callers calls) l)); [exact Hin|].
    apply in_or_app. left. exact Hin.
  - intros f Hf. rewrite forallb_forall in Hinh. specialize (Hinh f Hf). unfold inherit_ok in Hinh.
    apply andb_true_iff in Hinh; destruct Hinh as [Hinh I4].
    apply andb_true_iff in Hinh; destruct Hinh as [Hinh I3].
    apply andb_true_iff in Hinh; destruct Hinh as [I1 I2].
    split; [|split].
    + intros Hin. apply negb_true_iff in I2. assert (mem_str f esc = true).
      { unfold mem_str. apply existsb_exists. exists f. split; [exact Hin|apply String.eqb_refl]. }
      congruence.
    + apply is_nil_false. apply negb_true_iff. exact I3.
    + intros c Hc. rewrite forallb_forall in I4. specialize (I4 c (callers_in calls f c Hc)).
      apply andb_true_iff in I4; destruct I4 as [I4 J3].
      apply andb_true_iff in I4; destruct I4 as [J1 J2].
      split; [apply is_nil_false; apply negb_true_iff; exact J1|].
      split; [apply subset_incl; exact J2|].
      apply orb_true_iff in J3. destruct J3 as [J3|J3].
      * left. unfold mapped in J3. destruct (comps_of c); [discriminate|discriminate].
      * right. apply mem_str_in. exact J3.
  - intros f g Hin Hg Hany. rewrite forallb_forall in Hed. specialize (Hed (f, g) Hin). unfold edge_ok in Hed.
    unfold mapped in Hed. destruct (comps_of g) eqn:Eg; [contradiction|].
    cbn [negb orb] in Hed. destruct (has_any (c :: l)) eqn:Ea.
    + exfalso. apply Hany. unfold has_any in Ea. apply existsb_exists in Ea. destruct Ea as (x & Hx & E).
      apply comp_eqb_eq in E. subst. exact Hx.
    + cbn [orb] in Hed. apply andb_true_iff in Hed. destruct Hed as [M1 M2].
      split; [apply is_nil_false; apply negb_true_iff; exact M1|apply subset_incl; exact M2].
  - apply (list_eqb_eq String.eqb String.eqb_eq). assumption.
  - apply (list_eqb_eq String.eqb String.eqb_eq). assumption.
  - apply (list_eqb_eq str_pair_eqb str_pair_eqb_eq). assumption.
  - apply (list_eqb_eq String.eqb String.eqb_eq). assumption.
Qed.

(** the hand-written map wins: a listed function is classified as listed *)
Lemma cls_listed calls esc f : comps_of f <> [] -> cls calls esc f = comps_of f.
Proof. unfold cls. cbn [infer]. destruct (comps_of f); [intros H; contradiction|reflexivity]. Qed.
