(** Replay of all the printed clauses of one audience member (C10). *)
From Coq Require Import String Permutation.
From Shk Require Import Base.Prelude Model.Storyline Model.Config.
From Shk Require Import Proofs.ConfigText Proofs.ConfigRoles Proofs.ConfigCast Proofs.ConfigScript Proofs.ConfigExpr.
Open Scope Z_scope.

Section Aud2.
Variable orc : oracles.
Variables (ti au se : list bytes) (ro : list role) (ac : list actor) (sc : list scenespec)
          (te : Z) (st : list bytes) (fr : option bytes) (an to co : Z).
Notation S := (S ti au se ro ac sc te st fr an to co).
Notation expr_ok := (expr_ok orc ti au se ro ac sc te st fr an to co).
Notation assign_ok := (assign_ok orc ti au se ro ac sc te st fr an to co).
Notation dep_ok := (dep_ok ti au se ro ac sc te st fr an to co).

Section Member2.
Variables (pre : list member) (n : bytes).
Hypothesis Hn : mem_bytes n (map m_name pre) = false.
Hypothesis Hid : ident_ok n = true.
Notation M := (M n).

Definition stage (cls : list clause) (m m' : member) : Prop :=
  forall aud, slot pre m aud ->
  exists aud', run orc cls (S aud) = Ok (S aud') /\ slot pre m' aud' /\ (cls <> [] -> aud' = pre ++ [m']).

Lemma stage_nil m : stage [] m m.
Proof. intros aud Hs. exists aud. cbn. repeat split; auto. congruence. Qed.

Lemma stage_one cl m m' :
  (forall aud, slot pre m aud -> apply orc (S aud) cl = Ok (S (pre ++ [m']))) -> stage [cl] m m'.
Proof.
  intros H aud Hs. exists (pre ++ [m']). cbn. rewrite (H aud Hs). cbn.
  repeat split; auto. apply slot_last.
Qed.

Lemma stage_app c1 c2 m m' m'' : stage c1 m m' -> stage c2 m' m'' -> stage (c1 ++ c2) m m''.
Proof.
  intros H1 H2 aud Hs. destruct (H1 aud Hs) as (aud1 & R1 & S1 & N1).
  destruct (H2 aud1 S1) as (aud2 & R2 & S2 & N2).
  exists aud2. rewrite run_app, R1. cbn. rewrite R2. repeat split; auto.
  intros Hne. destruct c2 as [|c c2].
  - rewrite app_nil_r in Hne. cbn in R2. inversion R2. subst.
    (* no clause in c2: the member did not change *)
    destruct (H2 (pre ++ [m']) (slot_last pre m')) as (aud3 & R3 & S3 & _). cbn in R3. inversion R3. subst.
    specialize (N1 Hne). subst.
    (* slot pre m'' (pre ++ [m']) : either impossible or m' = m'' *)
    destruct S3 as [[E _]|E].
    + exfalso. clear - E. assert (L : length (pre ++ [m']) = length pre) by (rewrite E; reflexivity).
      rewrite app_length in L. cbn in L. lia.
    + apply app_inv_head in E. inversion E. reflexivity.
  - apply N2. discriminate.
Qed.

(** ** the assignments *)
Fixpoint reg_assigns (o : list vname) (l : list assign) : list vname :=
  match l with
  | [] => o
  | a :: tl => reg_assigns (reg o (x_deps (as_expr a))) tl
  end.

Fixpoint assigns_fresh (defd : list bytes) (l : list assign) : bool :=
  match l with
  | [] => true
  | a :: tl => negb (defined_in defd (as_var a)) && assigns_fresh (defd ++ [as_var a]) tl
  end.

Lemma stage_assigns c y p l : forall asg o,
  forallb assign_ok l = true ->
  assigns_ordered (vars_of pre ++ map as_var asg) l = true ->
  assigns_fresh (vars_of pre ++ map as_var asg) l = true ->
  stage (map (print_assign n) l) (M (Some c) asg None o y p) (M (Some c) (asg ++ l) None (reg_assigns o l) y p).
Proof.
  induction l as [|a l IH]; intros asg o Hok Hord Hfr.
  - cbn. rewrite app_nil_r. apply stage_nil.
  - cbn [map]. cbn [forallb] in Hok. apply andb_prop in Hok as [Ha Hl].
    cbn [assigns_ordered] in Hord. apply andb_prop in Hord as [Ho1 Ho2].
    cbn [assigns_fresh] in Hfr. apply andb_prop in Hfr as [Hf1 Hf2]. apply negb_true_iff in Hf1.
    change (print_assign n a :: map (print_assign n) l) with ([print_assign n a] ++ map (print_assign n) l).
    eapply stage_app.
    + apply stage_one. intros aud Hs. apply (apply_assign_clause orc ti au se ro ac sc te st fr an to co pre n Hn Hid aud c asg a o y p); assumption.
    + replace (asg ++ a :: l) with ((asg ++ [a]) ++ l) by (rewrite <- app_assoc; reflexivity).
      cbn [reg_assigns]. apply IH; try assumption.
      * rewrite map_app. cbn [map]. rewrite app_assoc. exact Ho2.
      * rewrite map_app. cbn [map]. rewrite app_assoc. exact Hf2.
Qed.

(** ** the watches *)
Lemma stage_watches c asg e y p l : forall o,
  forallb dep_ok l = true ->
  all_defined (vars_of pre ++ map as_var asg) (map snd (filter (fun d => is_nil (fst d)) l)) = true ->
  stage (map (print_watch n) l) (M c asg e o y p) (M c asg e (fold_left add_obs l o) y p).
Proof.
  induction l as [|v l IH]; intros o Hok Hdef.
  - cbn. apply stage_nil.
  - cbn [map fold_left]. cbn [forallb] in Hok. apply andb_prop in Hok as [Hv Hl].
    change (print_watch n v :: map (print_watch n) l) with ([print_watch n v] ++ map (print_watch n) l).
    eapply stage_app.
    + apply stage_one. intros aud Hs.
      apply (apply_watch_clause orc ti au se ro ac sc te st fr an to co pre n Hn Hid aud c asg e o y p v); auto.
      intros Hnil. destruct v as [a g]. cbn [fst snd] in *. cbn [filter fst] in Hdef. rewrite Hnil in Hdef.
      cbn [map all_defined forallb snd] in Hdef. apply andb_prop in Hdef as [H1 _]. exact H1.
    + apply IH; auto. destruct v as [a g]. cbn [filter fst] in Hdef. destruct (is_nil a); auto.
      cbn [map all_defined forallb] in Hdef. apply andb_prop in Hdef as [_ H2]. exact H2.
Qed.

(** ** the whole member *)
Definition canon_obs (m : member) : list vname :=
  let o1 := match m_cond m with Some e => reg [] (x_deps e) | None => [] end in
  let o2 := reg_assigns o1 (m_assigns m) in
  let o3 := match m_expect m with Some fe => reg o2 (x_deps (snd fe)) | None => o2 end in
  fold_left add_obs (m_obs m) o3.

Definition canon_member (m : member) : member :=
  mkMember (m_name m) (m_cond m) (m_assigns m) (m_expect m) (canon_obs m) (m_ylabel m) (m_noplot m) FNonZero FIgnore.

(** what the replay of a member needs (all decidable) *)
Definition member_ok (m : member) : bool :=
  forallb expr_ok (member_exprs m)
  && forallb assign_ok (m_assigns m)
  && (match m_expect m with None => true | Some fe => mem_bytes (fst fe) modalities end)
  && (match m_cond m with Some _ => true | None => is_nil (m_assigns m) && match m_expect m with None => true | Some _ => false end end)
  && forallb dep_ok (m_obs m)
  && member_ordered (vars_of pre) m
  && assigns_fresh (vars_of pre) (m_assigns m)
  && (match m_cond m with Some _ => true | None => false end
      || negb (is_nil (m_obs m)) || negb (is_nil (m_ylabel m)) || m_noplot m).

Lemma forallb_app {A} (f : A -> bool) l1 l2 : forallb f (l1 ++ l2) = forallb f l1 && forallb f l2.
Proof. induction l1; cbn; [reflexivity|]. rewrite IHl1, andb_assoc. reflexivity. Qed.

Lemma run_member m :
  m_name m = n -> member_ok m = true ->
  run orc (print_member m) (S pre) = Ok (S (pre ++ [canon_member m])).
Proof.
  intros En Hok. unfold member_ok in Hok.
  apply andb_prop in Hok as [Hok Hne]. apply andb_prop in Hok as [Hok Hfresh]. apply andb_prop in Hok as [Hok Hord].
  apply andb_prop in Hok as [Hok Hobs]. apply andb_prop in Hok as [Hok Hcond]. apply andb_prop in Hok as [Hok Hmod].
  apply andb_prop in Hok as [Hex Has].
  destruct m as [nm c asg e o y p fb fg]. cbn [m_name m_cond m_assigns m_expect m_obs m_ylabel m_noplot] in *. subst nm.
  unfold member_exprs in Hex. cbn [m_cond m_assigns m_expect] in Hex. rewrite !forallb_app in Hex.
  apply andb_prop in Hex as [Hexc Hex]. apply andb_prop in Hex as [_ Hexe].
  unfold member_ordered in Hord. cbn [m_cond m_assigns m_expect] in Hord.
  apply andb_prop in Hord as [Hord Ho34]. apply andb_prop in Hord as [Ho1 Ho2]. apply andb_prop in Ho34 as [Ho3 Ho4].
  unfold plain_obs in Ho4. cbn [m_obs] in Ho4.
  assert (Hstage : stage (print_member (mkMember n c asg e o y p fb fg)) (new_member n)
                         (canon_member (mkMember n c asg e o y p fb fg))).
  { unfold print_member, canon_member, canon_obs.
    cbn [m_name m_cond m_assigns m_expect m_obs m_ylabel m_noplot].
    change (new_member n) with (M None [] None [] [] false).
    set (o1 := match c with Some e0 => reg [] (x_deps e0) | None => [] end).
    set (o2 := reg_assigns o1 asg).
    set (o3 := match e with Some fe => reg o2 (x_deps (snd fe)) | None => o2 end).
    set (o4 := fold_left add_obs o o3).
    (* cond *)
    apply stage_app with (m' := M c [] None o1 [] false).
    { destruct c as [ec|].
      - cbn [forallb] in Hexc. apply andb_prop in Hexc as [Hec _].
        pose proof (fun aud Hs => apply_cond orc ti au se ro ac sc te st fr an to co pre n Hn Hid aud ec [] [] false Hs Hec Ho1) as Hc.
        cbn [x_src] in *. revert Hc. unfold o1. destruct (bytes_eqb (x_src ec) true_src); intros Hc; apply stage_one; exact Hc.
      - apply stage_nil. }
    (* assigns *)
    apply stage_app with (m' := M c asg None o2 [] false).
    { destruct c as [ec|].
      - pose proof (stage_assigns ec [] false asg [] o1) as Hst.
        cbn [map app] in Hst. rewrite app_nil_r in Hst. apply Hst; assumption.
      - apply andb_prop in Hcond as [Hnil _]. destruct asg; [|discriminate]. cbn. apply stage_nil. }
    (* expect *)
    apply stage_app with (m' := M c asg e o3 [] false).
    { destruct e as [[f ee]|].
      - destruct c as [ec|]; [|apply andb_prop in Hcond as [_ Hc2]; discriminate].
        cbn [forallb snd] in Hexe. apply andb_prop in Hexe as [Hee _]. cbn [fst] in Hmod. cbn [snd] in Ho3.
        apply stage_one. intros aud Hs.
        apply (apply_expect_clause orc ti au se ro ac sc te st fr an to co pre n Hn Hid aud ec asg f ee o2 [] false Hs Hmod Hee Ho3).
      - apply stage_nil. }
    (* watches *)
    apply stage_app with (m' := M c asg e o4 [] false).
    { apply (stage_watches c asg e [] false o); assumption. }
    (* measures *)
    apply stage_app with (m' := M c asg e o4 y false).
    { destruct y as [|y0 y].
      - apply stage_nil.
      - apply stage_one. intros aud Hs.
        apply (apply_measures_clause orc ti au se ro ac sc te st fr an to co pre n Hn Hid aud c asg e o4 false (y0 :: y) Hs). reflexivity. }
    (* only helps *)
    destruct p.
    - apply stage_one. intros aud Hs.
      apply (apply_onlyhelps_clause orc ti au se ro ac sc te st fr an to co pre n Hn Hid aud c asg e o4 y Hs).
    - apply stage_nil. }
  destruct (Hstage pre (slot_new pre n)) as (aud' & R & _ & N).
  rewrite R. f_equal. f_equal. apply N.
  (* the member prints at least one clause *)
  unfold print_member. cbn [m_name m_cond m_assigns m_expect m_obs m_ylabel m_noplot].
  cbn [m_cond m_obs m_ylabel m_noplot] in Hne.
  destruct c as [ec|].
  - destruct (bytes_eqb (x_src ec) true_src); discriminate.
  - cbn [app]. apply andb_prop in Hcond as [Hnil He]. destruct asg; [|discriminate]. destruct e; [discriminate|].
    cbn [map app]. cbn [orb] in Hne.
    destruct o as [|v o]; [|discriminate].
    cbn [map app is_nil negb orb] in *. destruct y; [|discriminate]. cbn [is_nil negb orb] in *. rewrite Hne. discriminate.
Qed.

End Member2.
End Aud2.
