(** wf_state is an invariant: scene clauses (C10). *)
From Coq Require Import String Permutation.
From Shk Require Import Base.Prelude Model.Storyline Model.Config.
From Shk Require Import Proofs.ConfigText Proofs.ConfigRoles Proofs.ConfigCast Proofs.ConfigExpr Proofs.ConfigHyps Proofs.ConfigInvariant Proofs.ConfigInvRoles.
Open Scope Z_scope.

Lemma findk_nodup {A} (key : A -> bytes) l x :
  nodup_b (map key l) = true -> In x l -> findk key (key x) l = Some x.
Proof.
  unfold findk. induction l as [|y l IH]; cbn; [tauto|].
  intros H [->|Hin].
  - rewrite bytes_eqb_refl. reflexivity.
  - apply andb_prop in H as [H1 H2]. apply negb_true_iff in H1.
    destruct (bytes_eqb (key x) (key y)) eqn:E.
    + apply bytes_eqb_eq in E. exfalso. apply mem_bytes_false in H1. apply H1. rewrite <- E. apply in_map. exact Hin.
    + auto.
Qed.

Section Inv3.
Variable orc : oracles.

Lemma upd_scene_spec c f l :
  (exists A sc0 B, l = A ++ sc0 :: B /\ s_char sc0 = c /\ mem_bytes [c] (chars_of A) = false /\ upd_scene c f l = A ++ f sc0 :: B)
  \/ (mem_bytes [c] (chars_of l) = false /\ upd_scene c f l = l ++ [f (mkScene c [] [] [])]).
Proof.
  induction l as [|x l IH]; cbn.
  - right. auto.
  - destruct (Byte.eqb c (s_char x)) eqn:E.
    + left. exists [], x, l. apply byte_eqb_eq in E. auto.
    + destruct IH as [(A & sc0 & B & E1 & E2 & E3 & E4)|[E1 E2]].
      * left. exists (x :: A), sc0, B. subst l. repeat split; auto.
        -- unfold chars_of in *. cbn [map mem_bytes bytes_eqb]. rewrite ?E, E3. reflexivity.
        -- cbn [app]. rewrite E4. reflexivity.
      * right. split; [unfold chars_of in *; cbn [map mem_bytes bytes_eqb]; rewrite ?E, E1; reflexivity|rewrite E2; reflexivity].
Qed.

Lemma wf_upd_scene s c f :
  wf_state orc s = true ->
  (is_alpha c || is_digit c) = true ->
  (forall sc, s_char (f sc) = s_char sc) ->
  (forall sc, s_char sc = c -> (sc = mkScene c [] [] [] \/ scene_wf s sc = true) -> scene_wf s (f sc) = true) ->
  wf_state orc (set_scenes s (upd_scene c f (c_scenes s))) = true.
Proof.
  intros Hwf Hc Hchar Hf.
  destruct (wf_elim orc s Hwf) as (W1 & W2 & W3 & W4 & W5 & W6 & W7 & W8 & W9 & W10 & W11).
  assert (G : grows s (set_scenes s (upd_scene c f (c_scenes s)))) by (apply grows_refl_on; destruct s; reflexivity).
  assert (Hsw : forall sc, scene_wf s sc = true -> scene_wf (set_scenes s (upd_scene c f (c_scenes s))) sc = true).
  { intros sc. apply scene_wf_grows. exact G. }
  destruct (upd_scene_spec c f (c_scenes s)) as [(A & sc0 & B & E1 & E2 & E3 & E4)|[E1 E2]].
  - apply (wf_rebuild orc s _ Hwf G); try (destruct s; cbn in *; assumption); try (destruct s; cbn in *; auto; fail).
    + destruct s; cbn in *. rewrite E4. intros sc Hin. apply in_app_or in Hin. destruct Hin as [Hin|[<-|Hin]].
      * left. rewrite E1. apply in_or_app. auto.
      * right. apply Hsw. apply Hf; [exact E2|]. right.
        apply (forallb_In _ _ _ W6). rewrite E1. apply in_or_app. right. left. reflexivity.
      * left. rewrite E1. apply in_or_app. right. right. exact Hin.
    + destruct s; cbn in *. rewrite E4. rewrite E1 in W7. rewrite !map_app in *. cbn [map] in *. rewrite Hchar. exact W7.
  - apply (wf_rebuild orc s _ Hwf G); try (destruct s; cbn in *; assumption); try (destruct s; cbn in *; auto; fail).
    + destruct s; cbn in *. rewrite E2. intros sc Hin. apply in_app_or in Hin. destruct Hin as [Hin|[<-|[]]]; [auto|].
      right. apply Hsw. apply Hf; auto.
    + destruct s; cbn in *. rewrite E2. rewrite map_app. cbn [map]. rewrite Hchar. cbn [s_char].
      apply nodup_b_snoc; assumption.
Qed.

Lemma shorthand_alnum ch c : shorthand ch = Ok c -> ch = [c] /\ (is_alpha c || is_digit c) = true.
Proof.
  unfold shorthand. destruct ch as [|x [|y tl]]; try discriminate.
  destruct (is_alpha x || is_digit x) eqn:E; [|discriminate]. intros H. inversion H; subst. auto.
Qed.

Lemma inv_mood s ch mood starts s' :
  wf_state orc s = true -> apply_mood s ch mood starts = Ok s' -> wf_state orc s' = true.
Proof.
  intros Hwf H. unfold apply_mood in H. inv_ok H. inversion H; subst; clear H.
  destruct (shorthand_alnum _ _ E0) as [_ Hc].
  apply wf_upd_scene; auto.
  - intros sc. destruct starts; reflexivity.
  - intros sc Hch Hsc. unfold scene_wf.
    assert (Hes : forallb (entail_wf s) (s_entails sc) = true /\ (is_nil (s_mstart sc) || ident_ok (s_mstart sc)) = true
                  /\ (is_nil (s_mend sc) || ident_ok (s_mend sc)) = true).
    { destruct Hsc as [->|Hsc]; [cbn; auto|].
      unfold scene_wf in Hsc. repeat (apply andb_prop in Hsc as [Hsc ?]). auto. }
    destruct Hes as (H1 & H2 & H3).
    assert (Hne : negb (is_nil mood) = true) by (destruct mood; [discriminate E|reflexivity]).
    destruct starts; cbn [s_char s_entails s_mstart s_mend]; rewrite Hch, Hc, H1, ?H2, ?H3, E, Hne; cbn;
      rewrite ?orb_true_r; reflexivity.
Qed.

Lemma select_actors_spec s tg r found :
  wf_state orc s = true -> select_actors s tg = Ok (r, found) ->
  forall a, In a found ->
    find_actor (a_name a) (c_actors s) = Some a /\ find_role (a_role a) (c_roles s) = Some r.
Proof.
  intros Hwf H a Ha.
  destruct (wf_elim orc s Hwf) as (_ & _ & W3 & _ & W5 & _).
  destruct tg as [an|rn]; cbn [select_actors] in H.
  - inv_ok H. destruct (find_role (a_role a0) (c_roles s)) as [r1|] eqn:Er; [|discriminate].
    inversion H; subst; clear H. destruct Ha as [<-|[]].
    pose proof E0 as E0'. apply find_some in E0'. destruct E0' as [Hin Hn]. apply bytes_eqb_eq in Hn.
    split; [|exact Er]. rewrite <- Hn. exact E0.
  - inv_ok H. inversion H; subst; clear H.
    apply filter_In in Ha. destruct Ha as [Hin Hr]. apply bytes_eqb_eq in Hr.
    split.
    + rewrite find_actor_eq. apply findk_nodup; assumption.
    + rewrite Hr. pose proof E1 as E1'. apply find_some in E1'. destruct E1' as [Hrin _].
      rewrite find_role_eq. apply findk_nodup; assumption.
Qed.

Lemma inv_entails s ch tg acts s' :
  wf_state orc s = true -> apply_entails s ch tg acts = Ok s' -> wf_state orc s' = true.
Proof.
  intros Hwf H. unfold apply_entails in H. inv_ok H. destruct a0 as [r found].
  destruct found as [|a1 found]; [inversion H; subst; exact Hwf|].
  inv_ok H. inversion H; subst; clear H.
  destruct (shorthand_alnum _ _ E) as [_ Hc].
  pose proof (select_actors_spec s tg r (a1 :: found) Hwf E0) as Hsel.
  apply wf_upd_scene; auto.
  intros sc Hch Hsc. unfold scene_wf.
  assert (Hes : forallb (entail_wf s) (s_entails sc) = true /\ (is_nil (s_mstart sc) || ident_ok (s_mstart sc)) = true
                /\ (is_nil (s_mend sc) || ident_ok (s_mend sc)) = true).
  { destruct Hsc as [->|Hsc]; [cbn; auto|].
    unfold scene_wf in Hsc. repeat (apply andb_prop in Hsc as [Hsc ?]). auto. }
  destruct Hes as (H1 & H2 & H3).
  cbn [s_char s_entails s_mstart s_mend]. rewrite Hch, Hc, H2, H3. cbn [andb].
  rewrite forallb_app2, H1. cbn [andb].
  assert (Hnew : forallb (entail_wf s) (map (fun a => mkEntail (a_name a) acts) (a1 :: found)) = true).
  { apply forallb_forall_In. intros e He. apply in_map_iff in He. destruct He as (ax & <- & Ha).
    destruct (Hsel ax Ha) as [Hfa Hfr]. unfold entail_wf. cbn [e_actor e_actions]. rewrite Hfa, Hfr. exact E1. }
  cbn [map] in Hnew. rewrite Hnew. cbn [andb map app]. destruct (s_entails sc); reflexivity.
Qed.

End Inv3.
