(** Proofs about the printed steps (property C06, "printed by -p"):
    the text of Model/StepsText.v can be read back.

    1. numbers and durations: [parse_dur (fmt_dur d) = Some d] for every
       duration (any number of nanoseconds, of either sign);
    2. lines: [parse_line (event_line e) = Some e] for events whose names are
       clean (no newline; actor names without ':' and not starting with '(');
       hence the whole text determines the list of printed events;
    3. events: reading the events back gives, per act, the header and the
       schedule (time, lines) of every scene that has lines plus the time the
       act ends — for every play whose lines are of the two kinds the
       compiler produces (an actor with do-steps, or a single mood step).
    Consequently two plays with the same printed steps have the same acts,
    scene times, lines (actors, actions, `?` marks) and moods: comparing the
    printed text loses nothing the property talks about. *)
From Shk Require Import Base.Prelude Model.Storyline Model.Compile Model.Denote Model.StepsText Model.StepsRead.
From Coq Require Import DecimalN DecimalPos ZifyBool.
Ltac Zify.zify_post_hook ::= Z.div_mod_to_equations.

(** * 1. Numbers *)


Definition head_nondigit (r : bytes) : Prop :=
  match r with [] => True | c :: _ => is_digit c = false end.

Lemma read_uint_nondigit r : head_nondigit r -> read_uint r = (Decimal.Nil, r).
Proof.
  destruct r as [|c r]; [reflexivity|]. cbn. unfold is_digit. destruct (digit_of c); [discriminate | reflexivity].
Qed.

Lemma read_uint_bytes u : forall r, head_nondigit r -> read_uint (uint_bytes u ++ r) = (u, r).
Proof.
  induction u; intros r Hr; cbn; try rewrite (IHu r Hr); try reflexivity.
  apply read_uint_nondigit, Hr.
Qed.


Lemma read_N_fmt n r : head_nondigit r -> read_N (fmt_N n ++ r) = (n, r).
Proof.
  intros Hr. unfold read_N, fmt_N. rewrite (read_uint_bytes _ r Hr), DecimalN.Unsigned.of_to. reflexivity.
Qed.

Lemma uint_bytes_head u : u <> Decimal.Nil -> exists c tl, uint_bytes u = c :: tl /\ is_digit c = true.
Proof. destruct u; intros H; [congruence | | | | | | | | | |]; cbn; eauto. Qed.

Lemma fmt_N_head n : exists c tl, fmt_N n = c :: tl /\ is_digit c = true.
Proof.
  unfold fmt_N. apply uint_bytes_head. destruct n as [|p]; cbn; [discriminate|].
  apply DecimalPos.Unsigned.to_uint_nonnil.
Qed.

(** * Durations *)
Local Open Scope N_scope.



Lemma digit_val_is_digit c : is_digit c = false -> digit_val c = None.
Proof. destruct c; cbn; intros H; try reflexivity; discriminate. Qed.

Lemma digit_val_byte d : d < 10 -> digit_val (digit_byte d) = Some d.
Proof.
  intros H. destruct d as [|p]; [reflexivity|].
  do 4 (destruct p as [p|p|]; try reflexivity; try lia).
Qed.

Lemma read_digs_bytes ds : forall r, Forall (fun d => d < 10) ds -> head_nondigit r ->
  read_digs (map digit_byte ds ++ r) = (ds, r).
Proof.
  induction ds as [|d ds IH]; intros r Hd Hr; cbn.
  - destruct r as [|c r]; [reflexivity|]. cbn in *. rewrite (digit_val_is_digit c Hr). reflexivity.
  - inversion Hd; subst. rewrite digit_val_byte by assumption. rewrite IH by assumption. reflexivity.
Qed.

(** value of the digits [ds] read as the first digits of a [prec]-digit fraction *)

Lemma pow10_pos p : 0 < 10 ^ N.of_nat p.
Proof. apply N.neq_0_lt_0, N.pow_nonzero. discriminate. Qed.

Lemma pow10_S p : 10 ^ N.of_nat (S p) = 10 * 10 ^ N.of_nat p.
Proof. rewrite Nat2N.inj_succ, N.pow_succ_r'. reflexivity. Qed.

Lemma frac_digits_val prec : forall f, f < 10 ^ N.of_nat prec ->
  val prec (frac_digits prec f) = f /\ Forall (fun d => d < 10) (frac_digits prec f).
Proof.
  induction prec as [|p IH]; intros f Hf; cbn [frac_digits val].
  - cbn in Hf. split; [lia | constructor].
  - assert (Hp := pow10_pos p). rewrite pow10_S in Hf.
    destruct (IH (f mod 10 ^ N.of_nat p)) as [Hv Hd]; [apply N.mod_lt; lia|].
    rewrite Hv. split.
    + rewrite N.mul_comm. symmetry. apply N.div_mod. lia.
    + constructor; [|exact Hd]. apply N.div_lt_upper_bound; lia.
Qed.

Lemma val_trim0 ds : forall prec, val prec (trim0 ds) = val prec ds.
Proof.
  induction ds as [|d tl IH]; intros prec; [reflexivity|].
  cbn [trim0]. destruct prec as [|p]; [destruct (trim0 tl); [destruct (d =? 0)|]; reflexivity|].
  specialize (IH p). destruct (trim0 tl) as [|x t] eqn:E.
  - destruct (d =? 0) eqn:Ed.
    + apply N.eqb_eq in Ed. subst d. cbn [val] in *. rewrite <- IH. destruct p; reflexivity.
    + cbn [val]. rewrite <- IH. destruct p; reflexivity.
  - cbn [val]. rewrite <- IH. reflexivity.
Qed.

Lemma trim0_Forall (P : N -> Prop) ds : Forall P ds -> Forall P (trim0 ds).
Proof.
  induction 1 as [|d tl Hd Htl IH]; [constructor|]. cbn.
  destruct (trim0 tl); [destruct (d =? 0); repeat constructor; assumption | constructor; assumption].
Qed.


Definition head_unit (r : bytes) : Prop :=
  match r with [] => True | c :: _ => is_digit c = false /\ c <> x2e end.

Lemma read_frac_fmt prec f r : f < 10 ^ N.of_nat prec -> head_unit r ->
  exists ds, read_frac (fmt_frac prec f ++ r) = (ds, r) /\ val prec ds = f.
Proof.
  intros Hf Hr. destruct (frac_digits_val prec f Hf) as [Hv Hd].
  exists (trim0 (frac_digits prec f)). split; [|rewrite val_trim0; exact Hv].
  unfold fmt_frac. assert (Ht := trim0_Forall _ _ Hd).
  assert (Hnd : head_nondigit r) by (destruct r; [exact I | apply Hr]).
  destruct (trim0 (frac_digits prec f)) as [|d ds] eqn:E.
  - cbn [app]. destruct r as [|c r]; [reflexivity|]. cbn in Hr. destruct Hr as [_ Hc].
    unfold read_frac. destruct c; try reflexivity. congruence.
  - change (read_digs (map digit_byte (d :: ds) ++ r) = (d :: ds, r)). apply read_digs_bytes; assumption.
Qed.

(** The last part of a duration: [<frac>unit] with the unit's size *)




Lemma parse_secs_fmt mins sec f :
  f < 1000000000 ->
  parse_secs mins (fmt_N sec ++ fmt_frac 9 f ++ [x73]) = Some ((mins * 60 + sec) * 1000000000 + f).
Proof.
  intros Hf. unfold parse_secs.
  destruct (read_frac_fmt 9 f [x73] Hf) as (ds & Ef & Ev); [split; [reflexivity | discriminate]|].
  rewrite read_N_fmt.
  - rewrite Ef, Ev. reflexivity.
  - unfold fmt_frac. destruct (trim0 (frac_digits 9 f)); cbn; reflexivity.
Qed.

Lemma fmt_frac_head prec f r : head_unit r -> head_nondigit (fmt_frac prec f ++ r).
Proof.
  intros Hr. unfold fmt_frac. destruct (trim0 (frac_digits prec f)); cbn; [|reflexivity].
  destruct r; [exact I | apply Hr].
Qed.

Lemma parse_tail_fmt n prec size f unit :
  f < 10 ^ N.of_nat prec -> unit_of unit = Some (prec, size) -> head_unit unit ->
  parse_tail n (fmt_frac prec f ++ unit) = Some (n * size + f).
Proof.
  intros Hf Hu Hh. unfold parse_tail.
  destruct (read_frac_fmt prec f unit Hf Hh) as (ds & Ef & Ev). rewrite Ef, Hu, Ev. reflexivity.
Qed.

Lemma dm u k : k <> 0 -> u / k * k + u mod k = u.
Proof. intros H. rewrite N.mul_comm. symmetry. apply N.div_mod, H. Qed.

Lemma mod_when_div0 u k : k <> 0 -> (0 <? u / k) = false -> u mod k = u.
Proof.
  intros Hk H. apply N.ltb_ge in H. apply N.mod_small. apply N.div_small_iff; [exact Hk | apply N.le_0_r, H].
Qed.

Theorem parse_dur_abs_fmt u : parse_dur_abs (fmt_dur_abs u) = Some u.
Proof.
  unfold fmt_dur_abs.
  destruct (u =? 0) eqn:E0; [apply N.eqb_eq in E0; subst; reflexivity|].
  destruct (u <? 1000) eqn:E1.
  { unfold parse_dur_abs. rewrite read_N_fmt by reflexivity. cbn. f_equal. rewrite N.mul_1_r, N.add_0_r. reflexivity. }
  destruct (u <? 1000000) eqn:E2.
  { unfold parse_dur_abs.
    rewrite read_N_fmt by (apply fmt_frac_head; split; [reflexivity | discriminate]).
    assert (Hf : u mod 1000 < 10 ^ N.of_nat 3) by (apply N.mod_lt; discriminate).
    assert (Hu : unit_of [xc2; xb5; x73] = Some (3%nat, 1000)) by reflexivity.
    assert (Hh : head_unit [xc2; xb5; x73]) by (split; [reflexivity | discriminate]).
    assert (Ht := parse_tail_fmt (u / 1000) 3 1000 (u mod 1000) [xc2; xb5; x73] Hf Hu Hh).
    unfold fmt_frac in *. destruct (trim0 (frac_digits 3 (u mod 1000))) as [|d ds];
      cbn [app] in *; rewrite Ht; f_equal; apply dm; discriminate. }
  destruct (u <? 1000000000) eqn:E3.
  { unfold parse_dur_abs.
    rewrite read_N_fmt by (apply fmt_frac_head; split; [reflexivity | discriminate]).
    assert (Hf : u mod 1000000 < 10 ^ N.of_nat 6) by (apply N.mod_lt; discriminate).
    assert (Hu : unit_of [x6d; x73] = Some (6%nat, 1000000)) by reflexivity.
    assert (Hh : head_unit [x6d; x73]) by (split; [reflexivity | discriminate]).
    assert (Ht := parse_tail_fmt (u / 1000000) 6 1000000 (u mod 1000000) [x6d; x73] Hf Hu Hh).
    unfold fmt_frac in *. destruct (trim0 (frac_digits 6 (u mod 1000000))) as [|d ds];
      cbn [app] in *; try change (is_digit x73) with false; cbv iota; rewrite Ht; f_equal; apply dm; discriminate. }
  set (secs := u / 1000000000). set (mins := secs / 60). set (hrs := mins / 60).
  assert (Hf : u mod 1000000000 < 1000000000) by (apply N.mod_lt; discriminate).
  destruct (0 <? mins) eqn:Em.
  - destruct (0 <? hrs) eqn:Eh.
    + unfold parse_dur_abs. rewrite <- !app_assoc. rewrite read_N_fmt by reflexivity.
      cbn [app]. rewrite read_N_fmt by reflexivity. cbn [app].
      rewrite parse_secs_fmt by exact Hf. f_equal. subst hrs.
      rewrite (dm mins 60) by discriminate. subst mins. rewrite (dm secs 60) by discriminate.
      subst secs. apply dm. discriminate.
    + unfold parse_dur_abs. cbn [app]. rewrite <- !app_assoc. rewrite read_N_fmt by reflexivity.
      cbn [app]. destruct (fmt_N_head (secs mod 60)) as (c & tl & Ec & Hc).
      remember (fmt_frac 9 (u mod 1000000000) ++ [x73]) as rest eqn:Erest.
      assert (E : fmt_N (secs mod 60) ++ rest = c :: (tl ++ rest)) by (rewrite Ec; reflexivity).
      rewrite E, Hc, <- E. subst rest.
      rewrite parse_secs_fmt by exact Hf. f_equal.
      rewrite (mod_when_div0 mins 60) by (discriminate || exact Eh).
      subst mins. rewrite (dm secs 60) by discriminate. subst secs. apply dm. discriminate.
  - unfold parse_dur_abs. cbn [app].
    rewrite read_N_fmt by (apply fmt_frac_head; split; [reflexivity | discriminate]).
    assert (Hf9 : u mod 1000000000 < 10 ^ N.of_nat 9) by exact Hf.
    assert (Hu : unit_of [x73] = Some (9%nat, 1000000000)) by reflexivity.
    assert (Hh : head_unit [x73]) by (split; [reflexivity | discriminate]).
    assert (Ht := parse_tail_fmt (secs mod 60) 9 1000000000 (u mod 1000000000) [x73] Hf9 Hu Hh).
    unfold fmt_frac in *. destruct (trim0 (frac_digits 9 (u mod 1000000000))) as [|d ds];
      cbn [app] in *; rewrite Ht; f_equal;
      rewrite (mod_when_div0 secs 60) by (discriminate || exact Em); subst secs; apply dm; discriminate.
Qed.

Local Close Scope N_scope.


Lemma fmt_dur_abs_head u : exists c tl, fmt_dur_abs u = c :: tl /\ is_digit c = true.
Proof.
  unfold fmt_dur_abs.
  destruct (u =? 0)%N; [eexists _, _; split; reflexivity|].
  destruct (u <? 1000)%N; [destruct (fmt_N_head u) as (c & tl & -> & H); cbn; eauto|].
  destruct (u <? 1000000)%N; [destruct (fmt_N_head (u / 1000)) as (c & tl & -> & H); cbn; eauto|].
  destruct (u <? 1000000000)%N; [destruct (fmt_N_head (u / 1000000)) as (c & tl & -> & H); cbn; eauto|].
  cbv zeta. destruct (0 <? u / 1000000000 / 60)%N.
  - destruct (0 <? u / 1000000000 / 60 / 60)%N.
    + destruct (fmt_N_head (u / 1000000000 / 60 / 60)) as (c & tl & -> & H); cbn; eauto.
    + destruct (fmt_N_head ((u / 1000000000 / 60) mod 60)) as (c & tl & -> & H); cbn; eauto.
  - destruct (fmt_N_head ((u / 1000000000) mod 60)) as (c & tl & -> & H); cbn; eauto.
Qed.

Theorem parse_dur_fmt d : parse_dur (fmt_dur d) = Some d.
Proof.
  unfold fmt_dur. destruct (d <? 0)%Z eqn:E.
  - cbn [parse_dur]. rewrite parse_dur_abs_fmt. cbn. f_equal. lia.
  - destruct (fmt_dur_abs_head (Z.to_N d)) as (c & tl & Ec & Hc).
    unfold parse_dur. rewrite Ec. destruct c; try discriminate; rewrite <- Ec, parse_dur_abs_fmt; cbn; f_equal; lia.
Qed.

(** * 2. Lines *)

Lemma strip_prefix_app p s : strip_prefix p (p ++ s) = Some s.
Proof.
  induction p as [|x p IH]; [reflexivity|]. cbn.
  assert (Byte.eqb x x = true) as -> by (apply byte_eqb_eq; reflexivity). exact IH.
Qed.



Lemma split_colon_app a r : ~ In x3a a -> split_colon (a ++ x3a :: r) = Some (a, r).
Proof.
  induction a as [|c a IH]; intros H; [reflexivity|]. cbn.
  destruct (Byte.eqb c x3a) eqn:E.
  - apply byte_eqb_eq in E. subst c. exfalso. apply H. left; reflexivity.
  - rewrite IH; [reflexivity | intros Hin; apply H; right; exact Hin].
Qed.

(** The body of a numbered line, after "# <i>:  " *)


(** Clean names: what the printed form can carry unambiguously. *)
Definition no_nl (s : bytes) : Prop := ~ In b_nl s.
Definition clean_actor (a : bytes) : Prop :=
  no_nl a /\ ~ In x3a a /\ match a with x28 :: _ => False | _ => True end.

Definition clean_event (e : pevent) : Prop :=
  match e with
  | PAct k st => (0 <= k)%Z /\ match st with Some s => no_nl s | None => True end
  | PWait i _ | PMeanwhile i => (0 <= i)%Z
  | PDo i a x _ => (0 <= i)%Z /\ clean_actor a /\ no_nl x
  | PMood i m => (0 <= i)%Z /\ no_nl m
  end.

Lemma fmt_Z_nonneg i : (0 <= i)%Z -> fmt_Z i = fmt_N (Z.to_N i).
Proof. intros H. unfold fmt_Z. destruct (i <? 0)%Z eqn:E; [lia | reflexivity]. Qed.

Lemma skip_sp_digit s : (exists c tl, s = c :: tl /\ is_digit c = true) -> skip_sp s = s.
Proof. intros (c & tl & -> & H). destruct c; try reflexivity. discriminate. Qed.

Lemma skip_sp_idx i r : (0 <= i)%Z -> skip_sp (fmt_idx i ++ r) = fmt_N (Z.to_N i) ++ r.
Proof.
  intros H. unfold fmt_idx. rewrite (fmt_Z_nonneg i H).
  destruct (fmt_N_head (Z.to_N i)) as (c & tl & E & Hc). rewrite E.
  assert (G : skip_sp ((c :: tl) ++ r) = (c :: tl) ++ r) by (apply skip_sp_digit; cbn; eauto).
  destruct tl as [|c2 tl]; [|exact G]. cbn [pad2 app skip_sp]. exact G.
Qed.

Lemma idx_head i : (0 <= i)%Z -> exists c tl, fmt_idx i = c :: tl /\ (c = x20 \/ is_digit c = true).
Proof.
  intros H. unfold fmt_idx. rewrite (fmt_Z_nonneg i H).
  destruct (fmt_N_head (Z.to_N i)) as (c & tl & -> & Hc).
  destruct tl as [|c2 tl]; cbn; eauto.
Qed.

Lemma numbered_line i b : (0 <= i)%Z ->
  parse_line (t_hash_sp ++ fmt_idx i ++ t_colon_2sp ++ b) = parse_body i b.
Proof.
  intros H. unfold parse_line.
  destruct (idx_head i H) as (c & tl & Ec & Hc).
  assert (strip_prefix t_act (t_hash_sp ++ fmt_idx i ++ t_colon_2sp ++ b) = None) as ->.
  { rewrite Ec. destruct Hc as [-> | Hc]; [reflexivity|]. cbn. destruct c; try reflexivity; discriminate. }
  rewrite strip_prefix_app, (skip_sp_idx i _ H), read_N_fmt by reflexivity.
  rewrite strip_prefix_app, Z2N.id by exact H. reflexivity.
Qed.

Lemma not_lpar_strip (p b : bytes) :
  match p with x28 :: _ => True | _ => False end ->
  match b with x28 :: _ => False | _ => True end ->
  strip_prefix p b = None.
Proof.
  destruct p as [|x p]; [contradiction|]. destruct x; try contradiction. intros _.
  destruct b as [|y b]; [reflexivity|]. intros Hb. cbn. destruct y; try reflexivity. contradiction.
Qed.

Theorem parse_line_event e : clean_event e -> parse_line (event_line e) = Some e.
Proof.
  destruct e as [k st | i ns | i | i a x f | i m]; cbn [clean_event event_line].
  - intros [Hk Hs]. unfold parse_line. rewrite strip_prefix_app, (fmt_Z_nonneg k Hk).
    destruct st as [s|].
    + rewrite read_N_fmt by reflexivity. cbn [bytes_eqb app t_colon_sp t_dashes].
      change (Byte.eqb x3a x20) with false. cbn [andb].
      change (x3a :: x20 :: s ++ t_dashes) with (t_colon_sp ++ s ++ t_dashes).
      rewrite strip_prefix_app, app_length. cbn [List.length t_dashes].
      replace (List.length s + 3 - 3)%nat with (List.length s) by lia.
      rewrite skipn_app, skipn_all, Nat.sub_diag, firstn_app, firstn_all, Nat.sub_diag, Z2N.id by exact Hk.
      cbn. rewrite app_nil_r. reflexivity.
    + rewrite app_nil_l, read_N_fmt by reflexivity. cbn. rewrite Z2N.id by exact Hk. reflexivity.
  - intros Hi. rewrite (numbered_line i _ Hi). unfold parse_body.
    rewrite strip_prefix_app, removelast_last, last_last, parse_dur_fmt. reflexivity.
  - intros Hi. rewrite (numbered_line i _ Hi). reflexivity.
  - intros (Hi & (Han & Hac & Hap) & Hx). rewrite (numbered_line i _ Hi). unfold parse_body.
    assert (Hb : match a ++ t_colon_sp ++ x ++ [if f then b_qm else b_bang] with x28 :: _ => False | _ => True end).
    { destruct a as [|c a]; [exact I | exact Hap]. }
    rewrite (not_lpar_strip t_wait _ I Hb), (not_lpar_strip t_mood _ I Hb).
    assert (bytes_eqb (a ++ t_colon_sp ++ x ++ [if f then b_qm else b_bang]) t_meanwhile = false) as ->.
    { destruct a as [|c a]; [reflexivity|]. cbn. destruct c; try reflexivity. contradiction. }
    change (t_colon_sp ++ ?r) with (x3a :: x20 :: r). rewrite (split_colon_app a _ Hac).
    rewrite removelast_last, last_last.
    destruct (x ++ [if f then b_qm else b_bang]) eqn:E; [destruct x; discriminate|].
    destruct f; reflexivity.
  - intros [Hi Hm]. rewrite (numbered_line i _ Hi). unfold parse_body.
    change (strip_prefix t_wait (t_mood ++ m ++ [b_rpar])) with (@None bytes).
    change (bytes_eqb (t_mood ++ m ++ [b_rpar]) t_meanwhile) with false.
    rewrite strip_prefix_app, removelast_last, last_last. reflexivity.
Qed.

(** The frame lines are not events. *)
Lemma parse_line_play : parse_line t_play = None. Proof. reflexivity. Qed.
Lemma parse_line_end : parse_line t_end = None. Proof. reflexivity. Qed.
Lemma parse_line_repeat r : parse_line (t_repeat ++ r) = None. Proof. reflexivity. Qed.
Lemma parse_line_nil : parse_line [] = None. Proof. reflexivity. Qed.

(** Splitting a text at newlines *)
Lemma pieces_no_sep sep a : ~ In sep a ->
  forall cur rest, pieces sep (a ++ rest) cur = pieces sep rest (rev a ++ cur).
Proof.
  induction a as [|x a IH]; intros Ha cur rest; [reflexivity|].
  cbn [app pieces]. destruct (Byte.eqb x sep) eqn:E.
  - apply byte_eqb_eq in E. subst x. exfalso. apply Ha. left; reflexivity.
  - rewrite IH by (intros H; apply Ha; right; exact H). cbn [rev]. rewrite <- app_assoc. reflexivity.
Qed.

Lemma pieces_line a rest : ~ In b_nl a -> pieces b_nl (a ++ b_nl :: rest) [] = a :: pieces b_nl rest [].
Proof.
  intros Ha. rewrite (pieces_no_sep b_nl a Ha). cbn. rewrite app_nil_r, rev_involutive. reflexivity.
Qed.


Lemma fmt_N_no_nl n : ~ In b_nl (fmt_N n).
Proof.
  unfold fmt_N. induction (N.to_uint n); cbn; intros H; try (destruct H as [H | H]; [discriminate | auto]); auto.
Qed.

Lemma fmt_Z_no_nl z : ~ In b_nl (fmt_Z z).
Proof.
  unfold fmt_Z. destruct (z <? 0)%Z; [intros [H | H]; [discriminate | exact (fmt_N_no_nl _ H)] | apply fmt_N_no_nl].
Qed.

Lemma fmt_idx_no_nl i : ~ In b_nl (fmt_idx i).
Proof.
  unfold fmt_idx. assert (H := fmt_Z_no_nl i). destruct (fmt_Z i) as [|c [|c2 tl]]; cbn in *; intuition discriminate.
Qed.

Lemma fmt_frac_no_nl prec f : ~ In b_nl (fmt_frac prec f).
Proof.
  unfold fmt_frac. destruct (trim0 (frac_digits prec f)) as [|d ds]; [auto|].
  intros [H | H]; [discriminate|]. apply in_map_iff in H. destruct H as (x & Hx & _).
  unfold digit_byte in Hx. destruct x as [|p]; [discriminate|].
  do 4 (destruct p as [p|p|]; try discriminate).
Qed.

Lemma fmt_dur_no_nl d : ~ In b_nl (fmt_dur d).
Proof.
  assert (G : forall u, ~ In b_nl (fmt_dur_abs u)).
  { intros u. unfold fmt_dur_abs.
    assert (HN := fmt_N_no_nl). assert (HF := fmt_frac_no_nl).
    repeat match goal with |- context [if ?c then _ else _] => destruct c end;
      rewrite ?in_app_iff; cbn; intros H;
      repeat match goal with
             | H : _ \/ _ |- _ => destruct H as [H | H]
             | H : In _ (_ ++ _) |- _ => apply in_app_iff in H
             | H : In b_nl (fmt_N _) |- _ => exact (HN _ H)
             | H : In b_nl (fmt_frac _ _) |- _ => exact (HF _ _ H)
             | H : In _ (_ :: _) |- _ => destruct H as [H | H]
             | H : In _ [] |- _ => destruct H
             | H : _ = b_nl |- _ => discriminate H
             | H : False |- _ => destruct H
             end. }
  unfold fmt_dur. destruct (d <? 0)%Z; [intros [H | H]; [discriminate | exact (G _ H)] | apply G].
Qed.

Lemma event_line_no_nl e : clean_event e -> ~ In b_nl (event_line e).
Proof.
  assert (HZ := fmt_Z_no_nl). assert (HI := fmt_idx_no_nl). assert (HD := fmt_dur_no_nl).
  destruct e as [k st | i ns | i | i a x f | i m]; cbn [clean_event event_line]; intros Hc H;
    repeat (apply in_app_iff in H; destruct H as [H | H]);
    try (cbn in H; repeat (destruct H as [H | H]; [discriminate H|]); exact H);
    try exact (HZ _ H); try exact (HI _ H); try exact (HD _ H).
  - destruct st as [s|]; [|destruct H]. apply in_app_iff in H. destruct H as [H | H].
    + cbn in H. repeat (destruct H as [H | H]; [discriminate H|]); exact H.
    + destruct Hc as [_ Hs]. exact (Hs H).
  - destruct Hc as (_ & (Ha & _) & _). exact (Ha H).
  - destruct Hc as (_ & _ & Hx). exact (Hx H).
  - destruct f; cbn in H; destruct H as [H | H]; try discriminate H; exact H.
  - destruct Hc as [_ Hm]. exact (Hm H).
Qed.

Lemma decode_events evs : Forall clean_event evs ->
  forall rest, flat_map (fun l => match parse_line l with Some e => [e] | None => [] end)
                        (pieces b_nl (render_events evs ++ rest) [])
               = evs ++ flat_map (fun l => match parse_line l with Some e => [e] | None => [] end)
                                 (pieces b_nl rest []).
Proof.
  induction 1 as [|e evs He Hevs IH]; intros rest; [reflexivity|].
  unfold render_events. cbn [flat_map]. rewrite <- !app_assoc. cbn [app].
  rewrite (pieces_line _ _ (event_line_no_nl e He)). cbn [flat_map].
  rewrite (parse_line_event e He). cbn [app]. f_equal. apply IH.
Qed.

(** The printed text determines the printed events. *)
Theorem decode_steps_text evs rep : Forall clean_event evs ->
  decode_text (steps_text evs rep) = evs.
Proof.
  intros H. unfold decode_text, steps_text.
  assert (Hp : ~ In b_nl t_play) by (cbn; intuition discriminate).
  change (t_play ++ [b_nl] ++ ?r) with (t_play ++ b_nl :: r). rewrite (pieces_line t_play _ Hp). cbn [flat_map]. rewrite parse_line_play. cbn [app].
  rewrite (decode_events evs H). rewrite <- (app_nil_r evs) at 2. f_equal.
  assert (He : ~ In b_nl t_end) by (cbn; intuition discriminate).
  assert (Hend : flat_map (fun l => match parse_line l with Some e => [e] | None => [] end)
                          (pieces b_nl (t_end ++ [b_nl]) []) = []).
  { rewrite (pieces_line t_end [] He). reflexivity. }
  destruct (0 <? rep)%Z; [|exact Hend].
  rewrite <- !app_assoc.
  assert (Hr : ~ In b_nl (t_repeat ++ fmt_Z rep ++ t_dashes)).
  { intros Hin. apply in_app_iff in Hin. destruct Hin as [Hin | Hin].
    - cbn in Hin. repeat (destruct Hin as [Hin | Hin]; [discriminate Hin|]). exact Hin.
    - apply in_app_iff in Hin. destruct Hin as [Hin | Hin]; [exact (fmt_Z_no_nl _ Hin)|].
      cbn in Hin. repeat (destruct Hin as [Hin | Hin]; [discriminate Hin|]). exact Hin. }
  change (t_repeat ++ fmt_Z rep ++ t_dashes ++ [b_nl] ++ t_end ++ [b_nl])
    with (t_repeat ++ fmt_Z rep ++ t_dashes ++ b_nl :: t_end ++ [b_nl]).
  replace (t_repeat ++ fmt_Z rep ++ t_dashes ++ b_nl :: t_end ++ [b_nl])
    with ((t_repeat ++ fmt_Z rep ++ t_dashes) ++ b_nl :: t_end ++ [b_nl]) by (rewrite <- !app_assoc; reflexivity).
  rewrite (pieces_line _ _ Hr). cbn [flat_map]. rewrite parse_line_repeat. exact Hend.
Qed.

(** * 3. From the printed events back to the schedule *)
Local Open Scope Z_scope.

(** The two kinds of lines the compiler produces. *)
Definition line_ok (l : sline) : Prop :=
  match ln_actor l with
  | Some _ => ln_steps l <> [] /\ Forall (fun s => st_amb s = false) (ln_steps l)
  | None => exists m, ln_steps l = [mkStep true m false]
  end.
Definition scene_ok (s : scene) : Prop := Forall line_ok (sc_lines s).
Definition act_ok (a : act_play) : Prop := Forall scene_ok a.
Definition play_ok (p : play) : Prop := Forall act_ok p.

(** What the dump shows of an act: for every scene that has lines its number,
    the time in force when it is printed (the last "wait until" so far) and
    its lines; and the time in force at the end of the act. *)
Fixpoint act_view (i at_ : Z) (l : act_play) : list entry * Z :=
  match l with
  | [] => ([], at_)
  | s :: tl =>
      let at' := if sc_wait s =? 0 then at_ else sc_wait s in
      let '(v, e) := act_view (i + 1) at' tl in
      (match sc_lines s with [] => v | ls => (i, at', ls) :: v end, e)
  end.

Fixpoint play_view (k : Z) (story : list bytes) (p : play) : list (Z * option bytes * (list entry * Z)) :=
  match p with
  | [] => []
  | a :: tl => (k, hd_error story, act_view 1 0 a) :: play_view (k + 1) (List.tl story) tl
  end.

(** ** The printer without its Outcome wrapper, for ok plays *)
Definition step_event (i : Z) (ac : option bytes) (s : step) : pevent :=
  if st_amb s then PMood i (st_action s)
  else match ac with
       | Some a => PDo i a (st_action s) (st_failok s)
       | None => PMood i (st_action s)        (* not reached for ok lines *)
       end.
Definition line_events (i : Z) (ln : sline) : list pevent :=
  map (step_event i (ln_actor ln)) (ln_steps ln).
Fixpoint lines_events (i : Z) (first : bool) (ls : list sline) : list pevent :=
  match ls with
  | [] => []
  | ln :: tl => (if first then [] else [PMeanwhile i]) ++ line_events i ln ++ lines_events i false tl
  end.
Fixpoint scenes_events (i at_ : Z) (l : act_play) : list pevent :=
  match l with
  | [] => []
  | s :: tl =>
      let w := sc_wait s in
      let is_last := match tl with [] => true | _ => false end in
      (if negb (w =? 0) && (is_last || negb (w =? at_)) then [PWait i w] else [])
      ++ lines_events i true (sc_lines s)
      ++ scenes_events (i + 1) (if w =? 0 then at_ else w) tl
  end.
Fixpoint acts_events (k : Z) (story : list bytes) (p : play) : list pevent :=
  match p with
  | [] => []
  | a :: tl => PAct k (hd_error story) :: scenes_events 1 0 a ++ acts_events (k + 1) (List.tl story) tl
  end.

Lemma line_ok_steps ln : line_ok ln -> ln_steps ln <> [].
Proof.
  unfold line_ok. destruct (ln_actor ln); [intros [H _]; exact H | intros (m & ->); discriminate].
Qed.

Lemma print_steps_ok i ac sts :
  match ac with Some _ => True | None => Forall (fun s => st_amb s = true) sts end ->
  print_steps_of i ac sts = Ok (map (step_event i ac) sts).
Proof.
  intros H. induction sts as [|s tl IH]; [reflexivity|].
  cbn [print_steps_of map]. rewrite IH.
  - cbn [obind]. unfold step_event. destruct (st_amb s) eqn:E; [reflexivity|].
    destruct ac; [reflexivity|]. inversion H; subst. congruence.
  - destruct ac; [exact I | inversion H; assumption].
Qed.

Lemma print_line_ok i ln : line_ok ln -> print_steps_of i (ln_actor ln) (ln_steps ln) = Ok (line_events i ln).
Proof.
  intros H. apply print_steps_ok. unfold line_ok in H. destruct (ln_actor ln); [exact I|].
  destruct H as (m & ->). repeat constructor.
Qed.

Lemma print_lines_ok i ls : Forall line_ok ls -> forall first,
  print_lines i first ls = Ok (lines_events i first ls).
Proof.
  induction 1 as [|ln tl Hl Htl IH]; intros first; [reflexivity|].
  cbn [print_lines lines_events]. rewrite (print_line_ok i ln Hl). cbn [obind].
  assert (Hn : no_steps ln = false).
  { unfold no_steps. destruct (ln_steps ln) eqn:E; [exfalso; exact (line_ok_steps ln Hl E) | reflexivity]. }
  rewrite Hn. cbn [negb]. rewrite andb_false_r, IH. cbn [obind andb].
  destruct first; reflexivity.
Qed.

Lemma print_scenes_ok l : act_ok l -> forall i at_,
  print_scenes i at_ l = Ok (scenes_events i at_ l).
Proof.
  induction 1 as [|s tl Hs Htl IH]; intros i at_; [reflexivity|].
  cbn [print_scenes scenes_events]. rewrite (print_lines_ok i _ Hs true). cbn [obind]. rewrite IH. reflexivity.
Qed.

Lemma print_acts_ok p : play_ok p -> forall k story,
  print_acts k story p = Ok (acts_events k story p).
Proof.
  induction 1 as [|a tl Ha Htl IH]; intros k story; [reflexivity|].
  cbn [print_acts acts_events]. rewrite (print_scenes_ok a Ha 1 0). cbn [obind]. rewrite IH. reflexivity.
Qed.

(** ** The reader *)






Lemma extend_last_snoc ls l st :
  extend_last (ls ++ [l]) st = ls ++ [mkLine (ln_actor l) (ln_steps l ++ [st])].
Proof. unfold extend_last. rewrite removelast_last, last_last. reflexivity. Qed.

(** reading the events of a step gives the step back (ok lines only) *)
Lemma step_event_read s i ac st :
  (match ac with Some _ => st_amb st = false | None => exists m, st = mkStep true m false end) ->
  rstep s (step_event i ac st) = add_step s i ac st.
Proof.
  intros H. unfold step_event. destruct ac as [a|].
  - rewrite H. destruct st as [amb x f]. cbn in H. subst amb. reflexivity.
  - destruct H as (m & ->). reflexivity.
Qed.

(** the remaining steps of a line extend its last line *)
Lemma read_more_steps i ac : forall sts done_ s j_t ls rest,
  (match ac with Some _ => Forall (fun st => st_amb st = false) sts | None => sts = [] end) ->
  r_ents s = (i, j_t, ls ++ [mkLine ac done_]) :: rest -> r_nl s = false ->
  fold_left rstep (map (step_event i ac) sts) s =
  mkR (r_done s) (r_head s) (r_t s) false ((i, j_t, ls ++ [mkLine ac (done_ ++ sts)]) :: rest).
Proof.
  induction sts as [|st sts IH]; intros done_ s j_t ls rest Hok He Hn.
  - cbn. rewrite app_nil_r. destruct s; cbn in *; subst; reflexivity.
  - destruct ac as [a|]; [|discriminate]. inversion Hok; subst.
    cbn [map fold_left]. rewrite step_event_read by assumption.
    rewrite (IH (done_ ++ [st]) _ j_t ls rest); try assumption.
    + cbn. rewrite <- app_assoc. reflexivity.
    + unfold add_step. rewrite He, Z.eqb_refl, Hn, extend_last_snoc. reflexivity.
    + reflexivity.
Qed.

(** what a whole line does to the scene entries *)
Definition add_line (i t : Z) (ln : sline) (ents : list entry) : list entry :=
  match ents with
  | (j, tj, ls) :: rest => if j =? i then (j, tj, ls ++ [ln]) :: rest else (i, t, [ln]) :: ents
  | [] => [(i, t, [ln])]
  end.

Lemma read_line i ln s : line_ok ln ->
  (r_nl s = true \/ match r_ents s with (j, _, _) :: _ => j <> i | [] => True end) ->
  fold_left rstep (line_events i ln) s =
  mkR (r_done s) (r_head s) (r_t s) false (add_line i (r_t s) ln (r_ents s)).
Proof.
  intros Hok Hs. destruct ln as [ac sts]. unfold line_events, line_ok in *. cbn [ln_actor ln_steps] in *.
  destruct sts as [|st sts]; [destruct ac; [destruct Hok; congruence | destruct Hok; discriminate]|].
  cbn [map fold_left].
  assert (Hst : match ac with Some _ => st_amb st = false | None => exists m, st = mkStep true m false end).
  { destruct ac; [destruct Hok as [_ H]; inversion H; assumption | destruct Hok as (m & H); inversion H; eauto]. }
  assert (Hrest : match ac with Some _ => Forall (fun st => st_amb st = false) sts | None => sts = [] end).
  { destruct ac; [destruct Hok as [_ H]; inversion H; assumption | destruct Hok as (m & H); inversion H; reflexivity]. }
  rewrite step_event_read by exact Hst.
  unfold add_line. destruct (r_ents s) as [|[[j tj] ls] rest] eqn:E.
  - rewrite (read_more_steps i ac sts [st] _ (r_t s) [] []); [reflexivity | exact Hrest | cbn; rewrite E; reflexivity | reflexivity].
  - destruct (j =? i) eqn:Ej.
    + apply Z.eqb_eq in Ej. subst j. destruct Hs as [Hs | Hs]; [|congruence].
      rewrite (read_more_steps i ac sts [st] _ tj ls rest);
        [reflexivity | exact Hrest | cbn; rewrite E, Z.eqb_refl, Hs; reflexivity | reflexivity].
    + rewrite (read_more_steps i ac sts [st] _ (r_t s) [] ((j, tj, ls) :: rest));
        [reflexivity | exact Hrest | cbn; rewrite E, Ej; reflexivity | reflexivity].
Qed.

(** the other lines of a scene join its entry *)
Lemma read_lines_rest i : forall ls s tj prior rest, Forall line_ok ls ->
  r_ents s = (i, tj, prior) :: rest ->
  exists nl, fold_left rstep (lines_events i false ls) s =
             mkR (r_done s) (r_head s) (r_t s) nl ((i, tj, prior ++ ls) :: rest).
Proof.
  induction ls as [|ln ls IH]; intros s tj prior rest Hok He.
  - exists (r_nl s). cbn. rewrite app_nil_r. destruct s; cbn in *; subst; reflexivity.
  - inversion Hok; subst. cbn [lines_events]. rewrite !fold_left_app. cbn [fold_left rstep].
    rewrite read_line; [|assumption | left; reflexivity]. cbn [r_done r_head r_t r_ents].
    unfold add_line. rewrite He, Z.eqb_refl.
    destruct (IH (mkR (r_done s) (r_head s) (r_t s) false ((i, tj, prior ++ [ln]) :: rest))
                 tj (prior ++ [ln]) rest) as (nl & E); [assumption | reflexivity |].
    exists nl. rewrite E. cbn. rewrite <- app_assoc. reflexivity.
Qed.

Definition head_below (i : Z) (ents : list entry) : Prop :=
  match ents with (j, _, _) :: _ => j < i | [] => True end.

Lemma read_scene_lines i ls s : Forall line_ok ls -> head_below i (r_ents s) ->
  exists nl, fold_left rstep (lines_events i true ls) s =
             mkR (r_done s) (r_head s) (r_t s) nl
                 (match ls with [] => r_ents s | _ => (i, r_t s, ls) :: r_ents s end).
Proof.
  intros Hok Hb. destruct ls as [|ln ls].
  - exists (r_nl s). destruct s; reflexivity.
  - inversion Hok; subst. cbn [lines_events app]. rewrite fold_left_app.
    rewrite read_line; [|assumption|].
    + assert (Ea : add_line i (r_t s) ln (r_ents s) = (i, r_t s, [ln]) :: r_ents s).
      { unfold add_line. destruct (r_ents s) as [|[[j tj] l0] rest]; [reflexivity|].
        cbn in Hb. destruct (j =? i) eqn:E; [apply Z.eqb_eq in E; lia | reflexivity]. }
      rewrite Ea.
      destruct (read_lines_rest i ls (mkR (r_done s) (r_head s) (r_t s) false ((i, r_t s, [ln]) :: r_ents s))
                                (r_t s) [ln] (r_ents s)) as (nl & E); [assumption | reflexivity |].
      exists nl. rewrite E. reflexivity.
    + right. destruct (r_ents s) as [|[[j tj] l0] rest]; [exact I | cbn in Hb; lia].
Qed.

Lemma read_scenes l : act_ok l -> forall i at_ s, head_below i (r_ents s) -> r_t s = at_ ->
  exists nl, fold_left rstep (scenes_events i at_ l) s =
             mkR (r_done s) (r_head s) (snd (act_view i at_ l)) nl
                 (rev (fst (act_view i at_ l)) ++ r_ents s).
Proof.
  induction 1 as [|sc tl Hs Htl IH]; intros i at_ s Hb Ht.
  - exists (r_nl s). cbn. subst at_. destruct s; reflexivity.
  - cbn [scenes_events act_view]. rewrite !fold_left_app.
    set (at' := if sc_wait sc =? 0 then at_ else sc_wait sc).
    set (s1 := fold_left rstep (if negb (sc_wait sc =? 0) && ((match tl with [] => true | _ => false end) || negb (sc_wait sc =? at_))
                                then [PWait i (sc_wait sc)] else []) s).
    assert (H1 : s1 = mkR (r_done s) (r_head s) at' (r_nl s) (r_ents s)).
    { subst s1 at'. destruct (sc_wait sc =? 0) eqn:E0; cbn [negb andb fold_left].
      - subst at_. destruct s; reflexivity.
      - destruct ((match tl with [] => true | _ => false end) || negb (sc_wait sc =? at_)) eqn:E1; cbn [fold_left rstep].
        + reflexivity.
        + apply orb_false_iff in E1. destruct E1 as [_ E1]. apply negb_false_iff, Z.eqb_eq in E1.
          rewrite E1. subst at_. destruct s; reflexivity. }
    destruct (read_scene_lines i (sc_lines sc) s1 Hs) as (nl1 & E2); [rewrite H1; exact Hb|].
    rewrite E2. rewrite H1. cbn [r_done r_head r_t r_ents].
    set (s2 := mkR (r_done s) (r_head s) at' nl1
                   (match sc_lines sc with [] => r_ents s | _ => (i, at', sc_lines sc) :: r_ents s end)).
    destruct (IH (i + 1) at' s2) as (nl2 & E3).
    { subst s2. cbn [r_ents]. destruct (sc_lines sc); [|cbn; lia].
      destruct (r_ents s) as [|[[j tj] l0] rest]; [exact I | cbn in *; lia]. }
    { reflexivity. }
    exists nl2. rewrite E3. subst s2. cbn [r_done r_head r_ents].
    destruct (act_view (i + 1) at' tl) as [v e]. cbn [fst snd].
    destruct (sc_lines sc); [reflexivity|]. cbn [rev]. rewrite <- app_assoc. reflexivity.
Qed.

Lemma read_acts p : play_ok p -> forall k story s,
  close_act (fold_left rstep (acts_events k story p) s) = rev (play_view k story p) ++ close_act s.
Proof.
  induction 1 as [|a tl Ha Htl IH]; intros k story s; [reflexivity|].
  cbn [acts_events fold_left play_view]. rewrite fold_left_app.
  destruct (read_scenes a Ha 1 0 (rstep s (PAct k (hd_error story))) I eq_refl) as (nl & E).
  rewrite E, IH. cbn [rev]. rewrite <- app_assoc. cbn [app]. f_equal.
  unfold close_act at 1. cbn [r_head r_done r_ents r_t rstep].
  rewrite app_nil_r, rev_involutive. destruct (act_view 1 0 a); reflexivity.
Qed.

(** Reading the printed events of an ok play gives its view. *)
Theorem read_print_play story p : play_ok p ->
  print_play story p = Ok (acts_events 1 story p)
  /\ read_events (acts_events 1 story p) = play_view 1 story p.
Proof.
  intros H. split; [apply print_acts_ok, H|].
  unfold read_events. rewrite (read_acts p H). cbn. rewrite app_nil_r, rev_involutive. reflexivity.
Qed.

(** * 4. Clean plays print clean events; the text determines the view *)
Definition line_clean (ln : sline) : Prop :=
  match ln_actor ln with Some a => clean_actor a | None => True end
  /\ Forall (fun s => no_nl (st_action s)) (ln_steps ln).
Definition play_clean (p : play) : Prop := Forall (Forall (fun s => Forall line_clean (sc_lines s))) p.

Lemma line_events_clean i ln : 0 <= i -> line_clean ln -> Forall clean_event (line_events i ln).
Proof.
  intros Hi [Ha Hs]. unfold line_events. apply Forall_forall. intros e He. apply in_map_iff in He.
  destruct He as (s & <- & Hin). rewrite Forall_forall in Hs. specialize (Hs s Hin).
  unfold step_event. destruct (st_amb s); [exact (conj Hi Hs)|].
  destruct (ln_actor ln); [exact (conj Hi (conj Ha Hs)) | exact (conj Hi Hs)].
Qed.

Lemma lines_events_clean i ls : 0 <= i -> Forall line_clean ls -> forall first,
  Forall clean_event (lines_events i first ls).
Proof.
  intros Hi. induction 1 as [|ln tl Hl Htl IH]; intros first; [constructor|].
  cbn [lines_events]. apply Forall_app. split; [destruct first; repeat constructor; exact Hi|].
  apply Forall_app. split; [apply line_events_clean; assumption | apply IH].
Qed.

Lemma scenes_events_clean l : Forall (fun s => Forall line_clean (sc_lines s)) l -> forall i at_, 0 <= i ->
  Forall clean_event (scenes_events i at_ l).
Proof.
  induction 1 as [|s tl Hs Htl IH]; intros i at_ Hi; [constructor|].
  cbn [scenes_events]. apply Forall_app. split.
  - destruct (negb (sc_wait s =? 0) && _); repeat constructor; exact Hi.
  - apply Forall_app. split; [apply lines_events_clean; assumption | apply IH; lia].
Qed.

Lemma acts_events_clean p : play_clean p -> forall k story, 0 <= k -> Forall no_nl story ->
  Forall clean_event (acts_events k story p).
Proof.
  induction 1 as [|a tl Ha Htl IH]; intros k story Hk Hst; [constructor|].
  cbn [acts_events]. constructor.
  - split; [exact Hk|]. destruct story as [|s0 st]; [exact I | inversion Hst; assumption].
  - apply Forall_app. split; [apply scenes_events_clean; [exact Ha | lia]|].
    apply IH; [lia | destruct story; [constructor | inversion Hst; assumption]].
Qed.

(** printSteps never crashes on an ok play, and its text can be read back. *)
Theorem print_text_ok story p rep : play_ok p ->
  print_text story p rep = Ok (steps_text (acts_events 1 story p) rep).
Proof. intros H. unfold print_text, print_play. rewrite (print_acts_ok p H). reflexivity. Qed.

Theorem printed_text_read_back story p rep : play_ok p -> play_clean p -> Forall no_nl story ->
  exists text, print_text story p rep = Ok text
               /\ read_events (decode_text text) = play_view 1 story p.
Proof.
  intros Hok Hcl Hst. eexists. split; [apply print_text_ok, Hok|].
  rewrite decode_steps_text by (apply acts_events_clean; [exact Hcl | lia | exact Hst]).
  apply read_print_play, Hok.
Qed.

Theorem printed_text_determines_view s1 p1 r1 s2 p2 r2 :
  play_ok p1 -> play_clean p1 -> Forall no_nl s1 ->
  play_ok p2 -> play_clean p2 -> Forall no_nl s2 ->
  print_text s1 p1 r1 = print_text s2 p2 r2 ->
  play_view 1 s1 p1 = play_view 1 s2 p2.
Proof.
  intros O1 C1 N1 O2 C2 N2 E.
  destruct (printed_text_read_back s1 p1 r1 O1 C1 N1) as (t1 & E1 & <-).
  destruct (printed_text_read_back s2 p2 r2 O2 C2 N2) as (t2 & E2 & <-).
  rewrite E1, E2 in E. inversion E. reflexivity.
Qed.

(** * 5. Compiled plays *)
Definition strip (v : list entry) : list (Z * list sline) := map (fun e => (snd (fst e), snd e)) v.

Fixpoint sched_view (at_ : Z) (l : act_play) : list (Z * list sline) * Z :=
  match l with
  | [] => ([], at_)
  | s :: tl =>
      let at' := if sc_wait s =? 0 then at_ else sc_wait s in
      let '(v, e) := sched_view at' tl in
      (match sc_lines s with [] => v | ls => (at', ls) :: v end, e)
  end.

Lemma act_view_sched l : forall i at_,
  (strip (fst (act_view i at_ l)), snd (act_view i at_ l)) = sched_view at_ l.
Proof.
  induction l as [|s tl IH]; intros i at_; [reflexivity|].
  cbn [act_view sched_view]. specialize (IH (i + 1) (if sc_wait s =? 0 then at_ else sc_wait s)).
  destruct (act_view (i + 1) _ tl) as [v e]. destruct (sched_view _ tl) as [v' e'].
  cbn [fst snd] in *. inversion IH; subst. destruct (sc_lines s); reflexivity.
Qed.

Lemma sched_view_group g tl t :
  0 <= t <= g_at g ->
  exists t', sched_view t (flatten_group g ++ tl) =
             (let '(evs, e) := sched_view t' tl in (group_events g ++ evs, e))
             /\ t <= t' <= g_at g.
Proof.
  intros Ht. destruct g as [at_ before lines after]. cbn [g_at] in Ht.
  unfold flatten_group, group_events. cbn [g_before g_lines g_after g_at].
  assert (Hmax : forall x, 0 <= x <= at_ -> (if at_ =? 0 then x else at_) = at_).
  { intros x Hx. destruct (at_ =? 0) eqn:E; [apply Z.eqb_eq in E; lia | lia]. }
  destruct before as [mb|], lines as [|l ls], after as [ma|]; cbn [app sched_view sc_wait sc_lines mood_sc];
    try rewrite (Hmax t Ht); try rewrite (Hmax at_) by lia; cbn [Z.eqb];
    try (exists at_; split; [destruct (sched_view at_ tl); reflexivity | lia]).
  exists t. split; [destruct (sched_view t tl); reflexivity | lia].
Qed.

Lemma sched_view_groups sem tempo : 0 <= tempo ->
  forall cols k t e, 0 <= k -> 0 <= t <= k * tempo -> e = (k + Z.of_nat (List.length cols)) * tempo ->
  sched_view t (flat_map flatten_group (denote_groups sem tempo k cols) ++ [mkScene e []])
  = (flat_map group_events (denote_groups sem tempo k cols), e).
Proof.
  intros Htempo. induction cols as [|col tl IH]; intros k t e Hk Ht He.
  - cbn. rewrite Z.add_0_r in He. subst e.
    destruct (k * tempo =? 0) eqn:E; [apply Z.eqb_eq in E; f_equal; lia | reflexivity].
  - cbn [denote_groups flat_map]. rewrite <- app_assoc.
    destruct (sched_view_group (denote_group sem (k * tempo) col)
                               (flat_map flatten_group (denote_groups sem tempo (k + 1) tl) ++ [mkScene e []]) t)
      as (t' & Et & Ht'); [exact Ht|].
    rewrite Et. cbn [g_at denote_group] in Ht'.
    rewrite (IH (k + 1) t' e); [reflexivity | lia | nia |].
    subst e. cbn [List.length]. lia.
Qed.

(** What the dump shows of a compiled act is the denoted schedule: every
    group's events at k * tempo, the act's end at ncols * tempo. *)
Theorem compiled_act_view sem tempo cols : 0 <= tempo ->
  let v := act_view 1 0 (flatten_act (denote_act sem tempo cols)) in
  (strip (fst v), snd v) = act_events (denote_act sem tempo cols).
Proof.
  intros Htempo. cbv zeta. rewrite act_view_sched.
  unfold flatten_act, act_events, denote_act. cbn [fst snd].
  apply (sched_view_groups sem tempo Htempo cols 0 0); lia.
Qed.

(** Compiled plays are ok; clean when the scene definitions are. *)
Definition spec_clean (sc : scene_spec) : Prop :=
  Forall (fun e : bytes * list bytes => clean_actor (fst e) /\ Forall no_nl (snd e)) (ss_entails sc)
  /\ no_nl (ss_start sc) /\ no_nl (ss_end sc).

Lemma in_removelast {A} (x : A) l : In x (removelast l) -> In x l.
Proof.
  induction l as [|a l IH]; [intros []|]. cbn. destruct l as [|b l]; [intros []|].
  intros [H | H]; [left; exact H | right; apply IH, H].
Qed.

Lemma action_step_props a : st_amb (action_step a) = false /\ (no_nl a -> no_nl (st_action (action_step a))).
Proof.
  unfold action_step. destruct a as [|c a]; [split; [reflexivity | auto]|].
  destruct (Byte.eqb (last (c :: a) x00) c_qm); split; try reflexivity; cbn [st_action]; auto.
  intros H Hin. apply H. apply in_removelast, Hin.
Qed.

Lemma scene_lines_ok sc : Forall line_ok (scene_lines sc).
Proof.
  unfold scene_lines. apply Forall_forall. intros ln Hin. apply in_flat_map in Hin.
  destruct Hin as ([a acts] & _ & Hin). cbn [fst snd] in Hin. destruct acts as [|x acts]; [destruct Hin|].
  destruct Hin as [<- | []]. unfold line_ok. cbn [ln_actor ln_steps]. split; [discriminate|].
  apply Forall_forall. intros s Hs. apply in_map_iff in Hs. destruct Hs as (y & <- & _). apply action_step_props.
Qed.

Lemma scene_lines_clean sc : spec_clean sc -> Forall line_clean (scene_lines sc).
Proof.
  intros [He _]. unfold scene_lines. apply Forall_forall. intros ln Hin. apply in_flat_map in Hin.
  destruct Hin as ([a acts] & Hent & Hin). rewrite Forall_forall in He. destruct (He _ Hent) as [Ha Hacts].
  cbn [fst snd] in *. destruct acts as [|x acts]; [destruct Hin|]. destruct Hin as [<- | []].
  split; [exact Ha|]. cbn [ln_steps]. apply Forall_forall. intros s Hs. apply in_map_iff in Hs.
  destruct Hs as (y & <- & Hy). rewrite Forall_forall in Hacts. apply action_step_props, Hacts, Hy.
Qed.

Lemma mood_line_ok m : line_ok (mkLine None [mkStep true m false]).
Proof. exists m. reflexivity. Qed.

Lemma find_some_in {A} (f : A -> bool) l x : find f l = Some x -> In x l.
Proof. intros H. apply find_some in H. apply H. Qed.

Lemma flatten_group_ok sem at_ col : Forall scene_ok (flatten_group (denote_group sem at_ col)).
Proof.
  unfold flatten_group, denote_group. cbn [g_before g_lines g_after g_at].
  assert (Hl : Forall line_ok (flat_map (fun c => scene_lines (sem c)) col)).
  { apply Forall_forall. intros ln Hin. apply in_flat_map in Hin. destruct Hin as (c & _ & Hin).
    assert (H := scene_lines_ok (sem c)). rewrite Forall_forall in H. apply H, Hin. }
  apply Forall_app. split; [destruct (first_nonempty _); repeat constructor; apply mood_line_ok|].
  apply Forall_app. split.
  - destruct (flat_map _ col) eqn:E; [constructor|]. constructor; [|constructor]. unfold scene_ok. cbn [sc_lines]. exact Hl.
  - destruct (last_nonempty _); repeat constructor; apply mood_line_ok.
Qed.

Lemma flatten_group_clean sem at_ col : (forall c, spec_clean (sem c)) ->
  Forall (fun s => Forall line_clean (sc_lines s)) (flatten_group (denote_group sem at_ col)).
Proof.
  intros Hsem. unfold flatten_group, denote_group. cbn [g_before g_lines g_after g_at].
  assert (Hl : Forall line_clean (flat_map (fun c => scene_lines (sem c)) col)).
  { apply Forall_forall. intros ln Hin. apply in_flat_map in Hin. destruct Hin as (c & _ & Hin).
    assert (H := scene_lines_clean (sem c) (Hsem c)). rewrite Forall_forall in H. apply H, Hin. }
  assert (Hmood : forall m, no_nl m -> Forall line_clean (sc_lines (mood_sc at_ m)) /\
                                       forall w, Forall line_clean (sc_lines (mood_sc w m))).
  { intros m Hm. split; [|intros w]; repeat constructor; exact Hm. }
  apply Forall_app. split.
  - destruct (first_nonempty _) as [m|] eqn:E; [|constructor]. constructor; [|constructor].
    apply find_some_in, in_map_iff in E. destruct E as (c & <- & _). apply (Hmood _ (proj1 (proj2 (Hsem c)))).
  - apply Forall_app. split.
    + destruct (flat_map _ col) eqn:E; [constructor|]. constructor; [exact Hl | constructor].
    + destruct (last_nonempty _) as [m|] eqn:E; [|constructor]. constructor; [|constructor].
      apply find_some_in, in_rev, in_map_iff in E. destruct E as (c & <- & _).
      apply (Hmood _ (proj2 (proj2 (Hsem c)))).
Qed.

Lemma flatten_act_ok sem tempo cols : act_ok (flatten_act (denote_act sem tempo cols)).
Proof.
  unfold flatten_act, denote_act, act_ok. cbn [fst snd]. apply Forall_app. split; [|repeat constructor].
  generalize 0 at 1. induction cols as [|col tl IH]; intros k; [constructor|].
  cbn [denote_groups flat_map]. apply Forall_app. split; [apply flatten_group_ok | apply IH].
Qed.

Lemma flatten_act_clean sem tempo cols : (forall c, spec_clean (sem c)) ->
  Forall (fun s => Forall line_clean (sc_lines s)) (flatten_act (denote_act sem tempo cols)).
Proof.
  intros Hsem. unfold flatten_act, denote_act. cbn [fst snd]. apply Forall_app. split; [|repeat constructor].
  generalize 0 at 1. induction cols as [|col tl IH]; intros k; [constructor|].
  cbn [denote_groups flat_map]. apply Forall_app. split; [apply flatten_group_clean, Hsem | apply IH].
Qed.

Lemma flatten_play_ok sem tempo story : play_ok (flatten_play (denote_play sem tempo story)).
Proof.
  unfold flatten_play, denote_play, play_ok. rewrite map_map. apply Forall_forall. intros a Ha.
  apply in_map_iff in Ha. destruct Ha as (cols & <- & _). apply flatten_act_ok.
Qed.

Lemma flatten_play_clean sem tempo story : (forall c, spec_clean (sem c)) ->
  play_clean (flatten_play (denote_play sem tempo story)).
Proof.
  intros Hsem. unfold flatten_play, denote_play, play_clean. rewrite map_map. apply Forall_forall. intros a Ha.
  apply in_map_iff in Ha. destruct Ha as (cols & <- & _). apply flatten_act_clean, Hsem.
Qed.

(** the act headers the dump shows: the storyline's acts, as far as there are any *)
Fixpoint headers (story : list bytes) (n : nat) : list (option bytes) :=
  match n with
  | O => []
  | S m => hd_error story :: headers (List.tl story) m
  end.

Lemma play_view_headers p : forall k story,
  map (fun x => snd (fst x)) (play_view k story p) = headers story (List.length p).
Proof.
  induction p as [|a tl IH]; intros k story; [reflexivity|]. cbn. rewrite IH. reflexivity.
Qed.

Lemma play_view_compiled sem tempo : 0 <= tempo -> forall story k text,
  map (fun x => (strip (fst (snd x)), snd (snd x)))
      (play_view k text (flatten_play (denote_play sem tempo story)))
  = map act_events (denote_play sem tempo story).
Proof.
  intros Htempo. induction story as [|cols tl IH]; intros k text; [reflexivity|].
  cbn [denote_play map flatten_play play_view fst snd].
  rewrite (compiled_act_view sem tempo cols Htempo). f_equal. apply IH.
Qed.

(** Two compiled plays with the same printed steps have the same acts, scene
    times, lines (actors, actions, `?` marks) and moods, and the same act
    headers. *)
Theorem printed_steps_determine_compiled_play
        sem1 tempo1 cols1 st1 r1 sem2 tempo2 cols2 st2 r2 :
  0 <= tempo1 -> 0 <= tempo2 ->
  (forall c, spec_clean (sem1 c)) -> (forall c, spec_clean (sem2 c)) ->
  Forall no_nl st1 -> Forall no_nl st2 ->
  print_text st1 (flatten_play (denote_play sem1 tempo1 cols1)) r1
  = print_text st2 (flatten_play (denote_play sem2 tempo2 cols2)) r2 ->
  map act_events (denote_play sem1 tempo1 cols1) = map act_events (denote_play sem2 tempo2 cols2)
  /\ headers st1 (List.length cols1) = headers st2 (List.length cols2).
Proof.
  intros T1 T2 C1 C2 N1 N2 E.
  assert (V := printed_text_determines_view _ _ _ _ _ _
                 (flatten_play_ok sem1 tempo1 cols1) (flatten_play_clean sem1 tempo1 cols1 C1) N1
                 (flatten_play_ok sem2 tempo2 cols2) (flatten_play_clean sem2 tempo2 cols2 C2) N2 E).
  split.
  - rewrite <- (play_view_compiled sem1 tempo1 T1 cols1 1 st1), <- (play_view_compiled sem2 tempo2 T2 cols2 1 st2), V.
    reflexivity.
  - assert (H1 := play_view_headers (flatten_play (denote_play sem1 tempo1 cols1)) 1 st1).
    assert (H2 := play_view_headers (flatten_play (denote_play sem2 tempo2 cols2)) 1 st2).
    unfold flatten_play, denote_play in H1, H2. rewrite !map_length in H1, H2.
    rewrite <- H1, <- H2. unfold flatten_play, denote_play in V. rewrite V. reflexivity.
Qed.
