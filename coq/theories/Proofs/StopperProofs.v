(** Invariants of the Stopper model, proved for every label sequence
    (induction over [reachable]), and the statements of C15 derived from
    them. *)
From Shk Require Import Base.Prelude Model.Stopper.
Open Scope nat_scope.

(** * Lists: [upd], [count], [Forall] *)

Definition b2n (b : bool) : nat := if b then 1 else 0.

Lemma count_nil {A} (f : A -> bool) : count f [] = 0.
Proof. reflexivity. Qed.

Lemma count_cons {A} (f : A -> bool) x l : count f (x :: l) = b2n (f x) + count f l.
Proof. unfold count; cbn. destruct (f x); reflexivity. Qed.

Lemma count_app1 {A} (f : A -> bool) l x : count f (l ++ [x]) = count f l + b2n (f x).
Proof.
  induction l as [|y l IH]; cbn [app]; [rewrite count_cons, !count_nil; lia|].
  rewrite !count_cons, IH. lia.
Qed.

Lemma count_upd {A} (f : A -> bool) l i old x :
  nth_error l i = Some old -> count f (upd l i x) + b2n (f old) = count f l + b2n (f x).
Proof.
  revert i; induction l as [|y l IH]; intros [|i] H; cbn in H; try discriminate.
  - inversion H; subst. cbn [upd]. rewrite !count_cons. lia.
  - cbn [upd]. rewrite !count_cons. specialize (IH _ H). lia.
Qed.

Lemma count_map_same {A} (f : A -> bool) (g : A -> A) l :
  (forall x, f (g x) = f x) -> count f (map g l) = count f l.
Proof.
  intros H; induction l as [|y l IH]; [reflexivity|]. cbn [map]. rewrite !count_cons, H, IH. reflexivity.
Qed.

Lemma count_zero_all {A} (f : A -> bool) l : count f l = 0 -> Forall (fun x => f x = false) l.
Proof.
  induction l as [|y l IH]; intros H; [constructor|]. rewrite count_cons in H.
  destruct (f y) eqn:E; cbn in H; [lia|]. constructor; [exact E | apply IH; lia].
Qed.

Lemma count_pos_of {A} (f : A -> bool) l i x : nth_error l i = Some x -> f x = true -> 1 <= count f l.
Proof.
  revert i; induction l as [|y l IH]; intros [|i] H E; cbn in H; try discriminate; rewrite count_cons.
  - inversion H; subst. rewrite E. cbn. lia.
  - specialize (IH _ H E). lia.
Qed.

Lemma count_one_unique {A} (f : A -> bool) l i j x y :
  count f l <= 1 -> nth_error l i = Some x -> f x = true -> nth_error l j = Some y -> f y = true -> i = j.
Proof.
  revert i j; induction l as [|z l IH]; intros [|i] [|j] Hc Hi Hx Hj Hy; cbn in Hi, Hj; try discriminate;
    rewrite count_cons in Hc.
  - reflexivity.
  - inversion Hi; subst. rewrite Hx in Hc. pose proof (count_pos_of _ _ _ _ Hj Hy). cbn in Hc. lia.
  - inversion Hj; subst. rewrite Hy in Hc. pose proof (count_pos_of _ _ _ _ Hi Hx). cbn in Hc. lia.
  - f_equal. eapply IH; eauto. lia.
Qed.

Lemma nth_upd_same {A} (l : list A) i old x : nth_error l i = Some old -> nth_error (upd l i x) i = Some x.
Proof.
  revert i; induction l as [|y l IH]; intros [|i] H; cbn in H; try discriminate; cbn; [reflexivity | eauto].
Qed.

Lemma nth_upd_other {A} (l : list A) i j x : i <> j -> nth_error (upd l i x) j = nth_error l j.
Proof.
  revert i j; induction l as [|y l IH]; intros [|i] [|j] H; cbn; try reflexivity; try congruence.
  apply IH. congruence.
Qed.

Lemma nth_upd {A} (l : list A) i j x y :
  nth_error (upd l i x) j = Some y -> (i = j /\ y = x) \/ (i <> j /\ nth_error l j = Some y).
Proof.
  destruct (Nat.eq_dec i j) as [->|N].
  - intros H. left. split; [reflexivity|].
    destruct (nth_error l j) eqn:E.
    + rewrite (nth_upd_same _ _ _ _ E) in H. congruence.
    + exfalso. revert j E H. induction l as [|z l IH]; intros [|j] E H; cbn in *; try discriminate. eauto.
  - rewrite nth_upd_other by exact N. auto.
Qed.

Lemma length_upd {A} (l : list A) i x : length (upd l i x) = length l.
Proof. revert i; induction l as [|y l IH]; intros [|i]; cbn; auto. Qed.

Lemma Forall_upd {A} (P : A -> Prop) l i x : Forall P l -> P x -> Forall P (upd l i x).
Proof.
  intros H Hx; revert i; induction H as [|y l Hy Hl IH]; intros [|i]; cbn; constructor; auto.
Qed.

Lemma Forall_app1 {A} (P : A -> Prop) l x : Forall P l -> P x -> Forall P (l ++ [x]).
Proof. intros; apply Forall_app; split; [assumption | constructor; [assumption | constructor]]. Qed.

Lemma Forall_nth {A} (P : A -> Prop) l i x : Forall P l -> nth_error l i = Some x -> P x.
Proof. intros H E. rewrite Forall_forall in H. apply H. eapply nth_error_In; eauto. Qed.

Lemma Forall_map_same {A} (P : A -> Prop) (g : A -> A) l :
  (forall x, P x -> P (g x)) -> Forall P l -> Forall P (map g l).
Proof. intros H F; induction F; cbn; constructor; auto. Qed.

Lemma Forall_map_impl {A} (P Q : A -> Prop) (g : A -> A) l :
  (forall x, P x -> Q (g x)) -> Forall P l -> Forall Q (map g l).
Proof. intros H F; induction F; cbn; constructor; auto. Qed.

Lemma Forall_impl' {A} (P Q : A -> Prop) l : Forall P l -> (forall x, P x -> Q x) -> Forall Q l.
Proof. intros F H; eapply Forall_impl; eauto. Qed.

Lemma nth_app1 {A} (l : list A) x j y :
  nth_error (l ++ [x]) j = Some y -> nth_error l j = Some y \/ (j = length l /\ y = x).
Proof.
  intros H. destruct (Nat.lt_ge_cases j (length l)) as [L|G].
  - rewrite nth_error_app1 in H by exact L. auto.
  - rewrite nth_error_app2 in H by exact G. right.
    destruct (j - length l) as [|n] eqn:E; cbn in H; [inversion H; split; [lia|reflexivity]|].
    destruct n; discriminate.
Qed.

Lemma nth_map_inv {A B} (g : A -> B) l j y :
  nth_error (map g l) j = Some y -> exists x, nth_error l j = Some x /\ y = g x.
Proof.
  intros H. rewrite nth_error_map in H. destruct (nth_error l j); cbn in H; inversion H; eauto.
Qed.

(** * The invariant *)

Definition lt_opt (a : option nat) (n : nat) : Prop :=
  match a with Some x => x < n | None => True end.

Definition stamps (t : task) := (t_acc_at t, t_begin_at t, t_end_at t, t_post_at t).
Definition ret_running (t : task) : option ret := if is_sync (tk t) then None else Some RNil.

(** What the program counter of a task says about its history variables;
    [n] bounds every stamp (it is the clock). *)
Definition task_ok (n : nat) (t : task) : Prop :=
  match pc t with
  | TSem0 | TSemWait | TCtxCheck | TRelRefused =>
      is_limited (tk t) = true /\ t_ret t = None /\ stamps t = (None, None, None, None)
  | TPre => t_ret t = None /\ stamps t = (None, None, None, None)
  | TRefused => (exists r, t_ret t = Some r /\ r <> RNil) /\ stamps t = (None, None, None, None)
  | TAccepted =>
      t_ret t = ret_running t /\ exists a, stamps t = (Some a, None, None, None) /\ a < n
  | TBody =>
      t_ret t = ret_running t /\ exists a b, stamps t = (Some a, Some b, None, None) /\ a < b /\ b < n
  | TBodyDone =>
      is_limited (tk t) = true /\ t_ret t = ret_running t /\
      exists a b e, stamps t = (Some a, Some b, Some e, None) /\ a < b /\ b < e /\ e < n
  | TPost =>
      t_ret t = ret_running t /\
      exists a b e, stamps t = (Some a, Some b, Some e, None) /\ a < b /\ b < e /\ e < n
  | TDone =>
      t_ret t = Some RNil /\
      exists a b e p, stamps t = (Some a, Some b, Some e, Some p) /\ a < b /\ b < e /\ e < p /\ p < n
  end.

Definition worker_ok (n : nat) (g : ghost) (w : worker) : Prop :=
  w_start_at w < n /\
  match wp w with
  | WBody => w_end_at w = None
  | _ => exists e, w_end_at w = Some e /\ w_start_at w < e /\ e < n
  end /\
  (w_counted w = true ->
     forall tw, g_wgdone_at g = Some tw ->
       w_start_at w < tw /\ wp w = WDone /\ exists e, w_end_at w = Some e /\ e < tw) /\
  (w_counted w = false -> exists tw, g_wgdone_at g = Some tw /\ tw <= w_start_at w).

Definition closer_ok (n : nat) (g : ghost) (c : closer) : Prop :=
  c_added_at c < n /\
  if c_after_stop c
  then c_listed c = false /\ c_calls c = 1 /\ c_called_at c = Some (c_added_at c) /\
       exists ts, g_stop_at g = Some ts /\ ts < c_added_at c
  else c_listed c = true /\
       (forall ts, g_stop_at g = Some ts -> c_added_at c < ts) /\
       match g_closers_at g with
       | None => c_calls c = 0 /\ c_called_at c = None
       | Some tc => c_calls c = 1 /\ c_called_at c = Some tc
       end.

Definition ctx_ok (q sc : bool) (c : cctx) : Prop :=
  (x_mid c = true -> x_cancelled c = true /\ x_noop c = false) /\
  (x_registered c = false -> x_cancelled c = true) /\
  (x_noop c = true -> x_registered c = false) /\
  (x_onq c = true -> q = true -> x_cancelled c = true) /\
  (x_onq c = false -> sc = true -> x_cancelled c = true).

Definition thread_wf (th : sthread) : Prop :=
  s_is_stop th = false ->
  match sp th with SQuiesce | SQWait | SQWoken | SReturned => True | _ => False end.

(** The Stop call that does the work (there is at most one). *)
Definition active (th : sthread) : bool :=
  s_is_stop th && match sp th with SEnter | SReturned => false | _ => true end.

Definition is_none {A} (o : option A) : Prop := o = None.
Definition is_some_p {A} (o : option A) : Prop := o <> None.

Definition phase_ok (g : ghost) (mu : bool) (p : spc) : Prop :=
  match p with
  | SQuiesce | SQWait | SQWoken => g_drained_at g = None /\ mu = false
  | SStopClose => g_drained_at g <> None /\ g_stop_at g = None /\ mu = false
  | SWgWait => g_stop_at g <> None /\ g_wgdone_at g = None /\ mu = false
  | SClosers => g_wgdone_at g <> None /\ g_closers_at g = None /\ mu = false
  | SStopped => g_closers_at g <> None /\ g_stopped_at g = None /\ mu = true
  | SEnter | SReturned => True
  end.

Definition opt_b {A} (o : option A) : bool := match o with Some _ => true | None => false end.

Definition ghost_ok (n : nat) (q sc sd : bool) (g : ghost) : Prop :=
  q = opt_b (g_quiesce_at g) /\ sc = opt_b (g_stop_at g) /\ sd = opt_b (g_stopped_at g) /\
  lt_opt (g_quiesce_at g) n /\ lt_opt (g_stopped_at g) n /\
  (forall d, g_drained_at g = Some d -> exists q', g_quiesce_at g = Some q' /\ q' <= d /\ d < n) /\
  (forall ts, g_stop_at g = Some ts -> exists d, g_drained_at g = Some d /\ d < ts /\ ts < n) /\
  (forall tw, g_wgdone_at g = Some tw -> exists ts, g_stop_at g = Some ts /\ ts < tw /\ tw < n) /\
  (forall tc, g_closers_at g = Some tc -> exists tw, g_wgdone_at g = Some tw /\ tw < tc /\ tc < n) /\
  (forall td, g_stopped_at g = Some td -> exists tc, g_closers_at g = Some tc /\ tc < td).

Record InvN (caps : list nat) (n : nat) (s : st) : Prop := {
  i_tasks : Forall (task_ok n) (tasks s);
  i_num : num_tasks s = Z.of_nat (count in_flight (tasks s));
  i_wg : wg s = Z.of_nat (count worker_live (workers s));
  i_workers : Forall (worker_ok n (gh s)) (workers s);
  i_sems : forall k cap len, nth_error (sems s) k = Some (cap, len) ->
             len = count (holds_slot_of k) (tasks s) /\ len <= cap /\ nth_error caps k = Some cap;
  i_twf : Forall thread_wf (sthreads s);
  i_active : count active (sthreads s) = b2n (stop_called s && negb (stopped_ch s));
  i_phase : forall j th, nth_error (sthreads s) j = Some th -> active th = true ->
              phase_ok (gh s) (mu_held s) (sp th);
  i_idle : stop_called s && negb (stopped_ch s) = false -> mu_held s = false /\
             (stop_called s = false -> g_drained_at (gh s) = None);
  i_wait : forall j th, nth_error (sthreads s) j = Some th ->
             (sp th = SQWait -> (0 < num_tasks s)%Z) /\
             (sp th = SQWait \/ sp th = SQWoken -> quiescing s = true);
  i_ghost : ghost_ok n (quiescing s) (stop_ch s) (stopped_ch s) (gh s);
  i_accq : forall q, g_quiesce_at (gh s) = Some q ->
             Forall (fun t => forall a, t_acc_at t = Some a -> a < q) (tasks s);
  i_drained : forall d, g_drained_at (gh s) = Some d ->
             quiescing s = true /\ num_tasks s = 0%Z /\
             Forall (fun t => forall a, t_acc_at t = Some a -> exists p, t_post_at t = Some p /\ p < d) (tasks s);
  i_closers : Forall (closer_ok n (gh s)) (closers s);
  i_ctxs : Forall (ctx_ok (quiescing s) (stop_ch s)) (ctxs s)
}.

Definition Inv (caps : list nat) (s : st) : Prop := InvN caps (clock s) s.

(** ** Monotonicity in the bound *)
Lemma task_ok_mono n m t : n <= m -> task_ok n t -> task_ok m t.
Proof.
  unfold task_ok; intros L H; destruct (pc t); try exact H.
  - destruct H as (R & a & E & L1). split; [exact R|]. exists a. split; [exact E | lia].
  - destruct H as (R & a & b & E & L1 & L2). split; [exact R|]. exists a, b. repeat split; try assumption; lia.
  - destruct H as (K & R & a & b & e & E & L1 & L2 & L3). split; [exact K|]. split; [exact R|].
    exists a, b, e. repeat split; try assumption; lia.
  - destruct H as (R & a & b & e & E & L1 & L2 & L3). split; [exact R|].
    exists a, b, e. repeat split; try assumption; lia.
  - destruct H as (R & a & b & e & p & E & L1 & L2 & L3 & L4). split; [exact R|].
    exists a, b, e, p. repeat split; try assumption; lia.
Qed.

Lemma worker_ok_mono n m g w : n <= m -> worker_ok n g w -> worker_ok m g w.
Proof.
  unfold worker_ok; intros L (A & B & C & D). split; [lia|]. split; [|split; [exact C | exact D]].
  destruct (wp w); try exact B; destruct B as (e & E & L1 & L2); exists e; repeat split; try assumption; lia.
Qed.

Lemma closer_ok_mono n m g c : n <= m -> closer_ok n g c -> closer_ok m g c.
Proof. unfold closer_ok; intros L (A & B). split; [lia | exact B]. Qed.

Lemma ghost_ok_mono n m q sc sd g : n <= m -> ghost_ok n q sc sd g -> ghost_ok m q sc sd g.
Proof.
  unfold ghost_ok; intros L (A & B & C & D & E & F & G & H & I & J).
  repeat (split; [first [assumption | (unfold lt_opt in *; destruct (g_quiesce_at g); lia)
                        | (unfold lt_opt in *; destruct (g_stopped_at g); lia)]|]).
  repeat split.
  - intros d Hd. destruct (F d Hd) as (q' & ? & ? & ?). exists q'; repeat split; try assumption; lia.
  - intros d Hd. destruct (G d Hd) as (q' & ? & ? & ?). exists q'; repeat split; try assumption; lia.
  - intros d Hd. destruct (H d Hd) as (q' & ? & ? & ?). exists q'; repeat split; try assumption; lia.
  - intros d Hd. destruct (I d Hd) as (q' & ? & ? & ?). exists q'; repeat split; try assumption; lia.
  - exact J.
Qed.

Lemma InvN_mono caps n m s : n <= m -> InvN caps n s -> InvN caps m s.
Proof.
  intros L [].
  constructor; try assumption.
  - eapply Forall_impl'; [eassumption | intros; eapply task_ok_mono; eauto].
  - eapply Forall_impl'; [eassumption | intros; eapply worker_ok_mono; eauto].
  - eapply ghost_ok_mono; eauto.
  - eapply Forall_impl'; [eassumption | intros; eapply closer_ok_mono; eauto].
Qed.

Ltac simp_st :=
  cbn [clock mu_held quiescing num_tasks stop_called stop_ch stopped_ch wg sems tasks workers
       closers ctxs sthreads gh set_tasks set_sems set_num_tasks set_workers set_closers set_ctxs
       set_sthreads set_stop_called set_quiescing set_gh set_stop_ch set_mu set_stopped_ch tick
       put_task put_thread] in *.

(** ** Replacing one task *)

Lemma holds_slot_of_false_nonlimited k t : is_limited (tk t) = false -> holds_slot_of k t = false.
Proof. unfold holds_slot_of, holds_slot; intros ->; reflexivity. Qed.

Lemma count_upd_same {A} (f : A -> bool) l i old x :
  nth_error l i = Some old -> f x = f old -> count f (upd l i x) = count f l.
Proof. intros H E. pose proof (count_upd f l i old x H). rewrite E in H0. lia. Qed.

(** A task changes its program counter without touching numTasks, the
    semaphores, or its accept / postlude stamps. *)
Lemma inv_put_task caps m s i t t' :
  InvN caps m s -> nth_error (tasks s) i = Some t ->
  task_ok m t' -> in_flight t' = in_flight t ->
  (forall k, holds_slot_of k t' = holds_slot_of k t) ->
  t_acc_at t' = t_acc_at t -> t_post_at t' = t_post_at t ->
  InvN caps m (put_task s i t').
Proof.
  intros [] Hi Hok Hf Hh Ha Hp.
  constructor; simp_st; try assumption.
  - apply Forall_upd; assumption.
  - rewrite (count_upd_same _ _ _ _ _ Hi Hf). assumption.
  - intros k cap len Hk. rewrite (count_upd_same _ _ _ _ _ Hi (Hh k)). eauto.
  - intros q Hq. apply Forall_upd; [eauto|]. rewrite Ha.
    exact (Forall_nth _ _ _ _ (i_accq0 q Hq) Hi).
  - intros d Hd. destruct (i_drained0 d Hd) as (Q & N & F). repeat split; try assumption.
    apply Forall_upd; [assumption|]. rewrite Ha, Hp. exact (Forall_nth _ _ _ _ F Hi).
Qed.

Lemma inv_put_task_sem caps m s i t t' k cap len len' :
  InvN caps m s -> nth_error (tasks s) i = Some t ->
  task_ok m t' -> in_flight t' = in_flight t ->
  t_acc_at t' = t_acc_at t -> t_post_at t' = t_post_at t ->
  nth_error (sems s) k = Some (cap, len) ->
  len' + b2n (holds_slot_of k t) = len + b2n (holds_slot_of k t') -> len' <= cap ->
  (forall k', k' <> k -> holds_slot_of k' t' = holds_slot_of k' t) ->
  InvN caps m (put_task (set_sems s (upd (sems s) k (cap, len'))) i t').
Proof.
  intros [] Hi Hok Hf Ha Hp Hk Hl Hc Hh.
  constructor; simp_st; try assumption.
  - apply Forall_upd; assumption.
  - rewrite (count_upd_same _ _ _ _ _ Hi Hf). assumption.
  - intros k0 c l H0. apply nth_upd in H0. destruct H0 as [[<- E]|[N H0]].
    + inversion E; subst c l. destruct (i_sems0 _ _ _ Hk) as (E1 & E2 & E3).
      pose proof (count_upd (holds_slot_of k) _ _ _ t' Hi). repeat split; [lia | assumption | assumption].
    + rewrite (count_upd_same _ _ _ _ _ Hi (Hh k0 (not_eq_sym N))). eauto.
  - intros q Hq. apply Forall_upd; [eauto|]. rewrite Ha.
    exact (Forall_nth _ _ _ _ (i_accq0 q Hq) Hi).
  - intros d Hd. destruct (i_drained0 d Hd) as (Q & N & F). repeat split; try assumption.
    apply Forall_upd; [assumption|]. rewrite Ha, Hp. exact (Forall_nth _ _ _ _ F Hi).
Qed.

(** Facts about [holds_slot_of] by program counter. *)
Lemma hso_pc k t p :
  holds_slot_of k (with_pc t p) =
  is_limited (tk t) && match p with
                       | TCtxCheck | TPre | TRelRefused | TAccepted | TBody | TBodyDone => true
                       | _ => false end &&
  match sem_of (tk t) with Some k' => k' =? k | None => false end.
Proof. reflexivity. Qed.

Lemma hso_refuse k t r : holds_slot_of k (refuse t r) = false.
Proof. unfold holds_slot_of, holds_slot; cbn. rewrite andb_false_r. reflexivity. Qed.

Lemma hso_at_select k t : at_select (pc t) = true -> holds_slot_of k t = false.
Proof.
  unfold holds_slot_of, holds_slot. destruct (pc t); cbn; try discriminate; intros _; rewrite andb_false_r; reflexivity.
Qed.

Lemma sem_of_limited t k : sem_of (tk t) = Some k -> is_limited (tk t) = true.
Proof. destruct (tk t); cbn; congruence. Qed.

Lemma task_ok_select n t : task_ok n t -> at_select (pc t) = true ->
  is_limited (tk t) = true /\ t_ret t = None /\ stamps t = (None, None, None, None).
Proof. unfold task_ok; destruct (pc t); cbn; try discriminate; auto. Qed.

Lemma stamps_inv t a b e p : stamps t = (a, b, e, p) ->
  t_acc_at t = a /\ t_begin_at t = b /\ t_end_at t = e /\ t_post_at t = p.
Proof. unfold stamps; intros H; inversion H; auto. Qed.

Lemma in_flight_select t : at_select (pc t) = true -> in_flight t = false.
Proof. unfold in_flight; destruct (pc t); cbn; congruence. Qed.

(** * Preservation, label by label.  [n] is the clock before the step. *)

Section Preservation.
Variable caps : list nat.

Definition Pres (l : label) : Prop :=
  forall s s', InvN caps (clock s) s -> step0 s l = Next s' ->
               InvN caps (S (clock s)) s' /\ clock s' = clock s.

Tactic Notation "start" ident(I) ident(H) :=
  intros s s' I H; cbn [step0] in H; unfold with_task, with_thread in H.

Tactic Notation "get_task" ident(H) ident(t) ident(Et) :=
  match type of H with
  | context [nth_error (tasks ?s) ?i] => destruct (nth_error (tasks s) i) as [t|] eqn:Et; [|discriminate]
  end.

Lemma pres_call_task k : Pres (LCallTask k).
Proof.
  start I H.
  assert (G : forall s1, s1 = set_tasks s (tasks s ++ [new_task k]) ->
              InvN caps (S (clock s)) s1 /\ clock s1 = clock s).
  { intros s1 ->. split; [|reflexivity].
    apply (InvN_mono caps (clock s) (S (clock s))) in I; [|lia]. destruct I.
    assert (Hn : in_flight (new_task k) = false) by (unfold in_flight, new_task; cbn; destruct (is_limited k); reflexivity).
    assert (Hh : forall k0, holds_slot_of k0 (new_task k) = false).
    { intros k0. unfold holds_slot_of, holds_slot, new_task; cbn. destruct k; cbn; reflexivity. }
    constructor; simp_st; try assumption.
    - apply Forall_app1; [assumption|]. unfold task_ok, new_task; cbn. destruct k; cbn; auto.
    - rewrite count_app1, Hn. cbn. rewrite Nat.add_0_r. assumption.
    - intros k0 cap len Hk. rewrite count_app1, Hh. cbn. rewrite Nat.add_0_r. eauto.
    - intros q Hq. apply Forall_app1; [eauto|]. cbn. discriminate.
    - intros d Hd. destruct (i_drained0 d Hd) as (Q & N & F). repeat split; try assumption.
      apply Forall_app1; [assumption|]. cbn. discriminate. }
  destruct k as [| |sm w c].
  - inversion H; subst. apply G; reflexivity.
  - inversion H; subst. apply G; reflexivity.
  - destruct (nth_error (sems s) sm); [|discriminate]. destruct c as [x|].
    + destruct (nth_error (ctxs s) x); [|discriminate]. inversion H; subst. apply G; reflexivity.
    + inversion H; subst. apply G; reflexivity.
Qed.

Lemma pres_sem_acquire i : Pres (LSemAcquire i).
Proof.
  start I H. get_task H t Et.
  destruct (sem_of (tk t)) as [k|] eqn:Ek; [|discriminate].
  destruct (at_select (pc t)) eqn:Ea; [|discriminate].
  unfold sem_inc in H. destruct (nth_error (sems s) k) as [[cap len]|] eqn:Es; [|discriminate].
  destruct (len <? cap) eqn:El; [|discriminate]. inversion H; subst; clear H.
  split; [|reflexivity].
  pose proof (Forall_nth _ _ _ _ (i_tasks _ _ _ I) Et) as Hok.
  destruct (task_ok_select _ _ Hok Ea) as (Hl & Hr & Hs). apply stamps_inv in Hs. destruct Hs as (S1 & S2 & S3 & S4).
  apply (InvN_mono caps (clock s) (S (clock s))) in I; [|lia].
  eapply inv_put_task_sem with (t := t) (len := len); eauto.
  - unfold task_ok; cbn. unfold stamps; cbn. rewrite S1, S2, S3, S4. auto.
  - cbn. rewrite (in_flight_select _ Ea). reflexivity.
  - rewrite (hso_at_select k t Ea), hso_pc, Hl, Ek, Nat.eqb_refl. cbn. lia.
  - apply Nat.ltb_lt in El. lia.
  - intros k' N. rewrite (hso_at_select k' t Ea), hso_pc, Ek.
    destruct (k =? k') eqn:E; [apply Nat.eqb_eq in E; congruence|]. rewrite andb_false_r. reflexivity.
Qed.

(** a select case that refuses: ErrUnavailable / context.Canceled / ErrThrottled *)
Lemma pres_refuse_at_select s i t r :
  InvN caps (clock s) s -> nth_error (tasks s) i = Some t -> at_select (pc t) = true -> r <> RNil ->
  InvN caps (S (clock s)) (put_task s i (refuse t r)).
Proof.
  intros I Et Ea Hr.
  pose proof (Forall_nth _ _ _ _ (i_tasks _ _ _ I) Et) as Hok.
  destruct (task_ok_select _ _ Hok Ea) as (Hl & Hr' & Hs). apply stamps_inv in Hs. destruct Hs as (S1 & S2 & S3 & S4).
  apply (InvN_mono caps (clock s) (S (clock s))) in I; [|lia].
  eapply inv_put_task with (t := t); eauto.
  - unfold task_ok; cbn. unfold stamps; cbn. rewrite S1, S2, S3, S4. split; [eauto|reflexivity].
  - cbn. rewrite (in_flight_select _ Ea). reflexivity.
  - intros k. rewrite hso_refuse, (hso_at_select k t Ea). reflexivity.
Qed.

Lemma pres_sem_quiesced i : Pres (LSemQuiesced i).
Proof.
  start I H. get_task H t Et.
  destruct (at_select (pc t)) eqn:Ea; [|discriminate]. destruct (quiescing s); [|discriminate].
  inversion H; subst. split; [|reflexivity]. eapply pres_refuse_at_select; eauto. discriminate.
Qed.

Lemma pres_sem_ctxdone i : Pres (LSemCtxDone i).
Proof.
  start I H. get_task H t Et.
  destruct (at_select (pc t)) eqn:Ea; [|discriminate]. destruct (ctx_done s (ctx_of (tk t))); [|discriminate].
  inversion H; subst. split; [|reflexivity]. eapply pres_refuse_at_select; eauto. discriminate.
Qed.

Lemma pres_sem_default i : Pres (LSemDefault i).
Proof.
  start I H. get_task H t Et.
  destruct (pc t) eqn:Ep; try discriminate. destruct (sem_of (tk t)) as [k|] eqn:Ek; [|discriminate].
  destruct (sem_room s k || quiescing s || ctx_done s (ctx_of (tk t))); [discriminate|].
  assert (Ea : at_select (pc t) = true) by (rewrite Ep; reflexivity).
  destruct (wait_of (tk t)); inversion H; subst; clear H; (split; [|reflexivity]).
  - pose proof (Forall_nth _ _ _ _ (i_tasks _ _ _ I) Et) as Hok.
    destruct (task_ok_select _ _ Hok Ea) as (Hl & Hr' & Hs). apply stamps_inv in Hs. destruct Hs as (S1 & S2 & S3 & S4).
    apply (InvN_mono caps (clock s) (S (clock s))) in I; [|lia].
    eapply inv_put_task with (t := t); eauto.
    + unfold task_ok; cbn. unfold stamps; cbn. rewrite S1, S2, S3, S4. auto.
    + cbn. unfold in_flight. rewrite Ep. reflexivity.
    + intros k'. rewrite (hso_at_select k' t Ea), hso_pc. rewrite andb_false_r. reflexivity.
  - eapply pres_refuse_at_select; eauto. discriminate.
Qed.

Lemma sem_dec_inv s k sm' : sem_dec s k = Some sm' ->
  exists cap len, nth_error (sems s) k = Some (cap, S len) /\ sm' = upd (sems s) k (cap, len).
Proof.
  unfold sem_dec. destruct (nth_error (sems s) k) as [[cap [|len]]|]; try discriminate.
  intros H; inversion H; eauto.
Qed.

(** a holder of a slot releases it and moves to program counter [p'] *)
Lemma pres_release s i t k cap len t' :
  InvN caps (clock s) s -> nth_error (tasks s) i = Some t ->
  sem_of (tk t) = Some k -> holds_slot_of k t = true ->
  nth_error (sems s) k = Some (cap, S len) ->
  task_ok (S (clock s)) t' -> in_flight t' = in_flight t ->
  t_acc_at t' = t_acc_at t -> t_post_at t' = t_post_at t ->
  (forall k', holds_slot_of k' t' = false) ->
  InvN caps (S (clock s)) (put_task (set_sems s (upd (sems s) k (cap, len))) i t').
Proof.
  intros I Et Ek Hh Es Hok Hf Ha Hp Hn.
  apply (InvN_mono caps (clock s) (S (clock s))) in I; [|lia].
  destruct (i_sems _ _ _ I _ _ _ Es) as (_ & Hc & _).
  eapply inv_put_task_sem with (t := t) (len := S len); eauto.
  - rewrite Hh, Hn. cbn. lia.
  - lia.
  - intros k' N. rewrite Hn. unfold holds_slot_of. rewrite Ek.
    destruct (k =? k') eqn:E; [apply Nat.eqb_eq in E; congruence|]. rewrite andb_false_r. reflexivity.
Qed.

Lemma pres_ctx_check i : Pres (LCtxCheck i).
Proof.
  start I H. get_task H t Et.
  destruct (pc t) eqn:Ep; try discriminate. destruct (sem_of (tk t)) as [k|] eqn:Ek; [|discriminate].
  pose proof (Forall_nth _ _ _ _ (i_tasks _ _ _ I) Et) as Hok.
  unfold task_ok in Hok; rewrite Ep in Hok. destruct Hok as (Hl & Hr & Hs).
  apply stamps_inv in Hs. destruct Hs as (S1 & S2 & S3 & S4).
  destruct (ctx_done s (ctx_of (tk t))).
  - destruct (sem_dec s k) as [sm'|] eqn:Ed; [|discriminate]. inversion H; subst; clear H.
    split; [|reflexivity]. apply sem_dec_inv in Ed. destruct Ed as (cap & len & Es & ->).
    eapply pres_release with (t := t); eauto.
    + unfold holds_slot_of, holds_slot. rewrite Hl, Ep, Ek, Nat.eqb_refl. reflexivity.
    + unfold task_ok; cbn. unfold stamps; cbn. rewrite S1, S2, S3, S4. split; [|reflexivity].
      eexists; split; [reflexivity | discriminate].
    + cbn. unfold in_flight. rewrite Ep. reflexivity.
    + intros k'. apply hso_refuse.
  - inversion H; subst; clear H. split; [|reflexivity].
    apply (InvN_mono caps (clock s) (S (clock s))) in I; [|lia].
    eapply inv_put_task with (t := t); eauto.
    + unfold task_ok; cbn. unfold stamps; cbn. rewrite S1, S2, S3, S4. auto.
    + cbn. unfold in_flight. rewrite Ep. reflexivity.
    + intros k'. rewrite hso_pc. unfold holds_slot_of, holds_slot. rewrite Ep. reflexivity.
Qed.

Lemma pres_sem_rel_refused i : Pres (LSemRelRefused i).
Proof.
  start I H. get_task H t Et.
  destruct (pc t) eqn:Ep; try discriminate. destruct (sem_of (tk t)) as [k|] eqn:Ek; [|discriminate].
  pose proof (Forall_nth _ _ _ _ (i_tasks _ _ _ I) Et) as Hok.
  unfold task_ok in Hok; rewrite Ep in Hok. destruct Hok as (Hl & Hr & Hs).
  apply stamps_inv in Hs. destruct Hs as (S1 & S2 & S3 & S4).
  destruct (sem_dec s k) as [sm'|] eqn:Ed; [|discriminate]. inversion H; subst; clear H.
  split; [|reflexivity]. apply sem_dec_inv in Ed. destruct Ed as (cap & len & Es & ->).
  eapply pres_release with (t := t); eauto.
  - unfold holds_slot_of, holds_slot. rewrite Hl, Ep, Ek, Nat.eqb_refl. reflexivity.
  - unfold task_ok; cbn. unfold stamps; cbn. rewrite S1, S2, S3, S4. split; [|reflexivity].
    eexists; split; [reflexivity | discriminate].
  - cbn. unfold in_flight. rewrite Ep. reflexivity.
  - intros k'. apply hso_refuse.
Qed.

Lemma pres_sem_release i : Pres (LSemRelease i).
Proof.
  start I H. get_task H t Et.
  destruct (pc t) eqn:Ep; try discriminate. destruct (sem_of (tk t)) as [k|] eqn:Ek; [|discriminate].
  pose proof (Forall_nth _ _ _ _ (i_tasks _ _ _ I) Et) as Hok.
  unfold task_ok in Hok; rewrite Ep in Hok. destruct Hok as (Hl & Hr & a & b & e & Hs & L1 & L2 & L3).
  apply stamps_inv in Hs. destruct Hs as (S1 & S2 & S3 & S4).
  destruct (sem_dec s k) as [sm'|] eqn:Ed; [|discriminate]. inversion H; subst; clear H.
  split; [|reflexivity]. apply sem_dec_inv in Ed. destruct Ed as (cap & len & Es & ->).
  eapply pres_release with (t := t); eauto.
  - unfold holds_slot_of, holds_slot. rewrite Hl, Ep, Ek, Nat.eqb_refl. reflexivity.
  - unfold task_ok; cbn. unfold stamps, ret_running; cbn. rewrite S1, S2, S3, S4. split; [exact Hr|].
    exists a, b, e. repeat split; try assumption; lia.
  - cbn. unfold in_flight. rewrite Ep. reflexivity.
  - intros k'. rewrite hso_pc. rewrite andb_false_r. reflexivity.
Qed.

Lemma pres_body_begin i : Pres (LBodyBegin i).
Proof.
  start I H. get_task H t Et.
  destruct (pc t) eqn:Ep; try discriminate. inversion H; subst; clear H. split; [|reflexivity].
  pose proof (Forall_nth _ _ _ _ (i_tasks _ _ _ I) Et) as Hok.
  unfold task_ok in Hok; rewrite Ep in Hok. destruct Hok as (Hr & a & Hs & L1).
  apply stamps_inv in Hs. destruct Hs as (S1 & S2 & S3 & S4).
  apply (InvN_mono caps (clock s) (S (clock s))) in I; [|lia].
  eapply inv_put_task with (t := t); eauto.
  - unfold task_ok; cbn. unfold stamps, ret_running; cbn. rewrite S1. split; [exact Hr|].
    exists a, (clock s). repeat split; try assumption; lia.
  - cbn. unfold in_flight. rewrite Ep. reflexivity.
  - intros k'. unfold holds_slot_of, holds_slot; cbn. rewrite Ep. reflexivity.
Qed.

Lemma pres_end_body i b : forall s s', InvN caps (clock s) s ->
  with_task s i (fun t => end_body s i t b) = Next s' ->
  InvN caps (S (clock s)) s' /\ clock s' = clock s.
Proof.
  intros s s' I H. unfold with_task, end_body in H. get_task H t Et.
  destruct (pc t) eqn:Ep; try discriminate. inversion H; subst; clear H. split; [|reflexivity].
  pose proof (Forall_nth _ _ _ _ (i_tasks _ _ _ I) Et) as Hok.
  unfold task_ok in Hok; rewrite Ep in Hok. destruct Hok as (Hr & a & b0 & Hs & L1 & L2).
  apply stamps_inv in Hs. destruct Hs as (S1 & S2 & S3 & S4).
  apply (InvN_mono caps (clock s) (S (clock s))) in I; [|lia].
  eapply inv_put_task with (t := t); eauto.
  - unfold task_ok; cbn. destruct (is_limited (tk t)) eqn:El; cbn; unfold stamps, ret_running; cbn; rewrite S1, S2.
    + split; [reflexivity|]. split; [exact Hr|]. exists a, b0, (clock s). repeat split; try assumption; lia.
    + split; [exact Hr|]. exists a, b0, (clock s). repeat split; try assumption; lia.
  - cbn. unfold in_flight. rewrite Ep. destruct (is_limited (tk t)); reflexivity.
  - intros k'. unfold holds_slot_of, holds_slot; cbn. rewrite Ep.
    destruct (is_limited (tk t)); reflexivity.
Qed.

Lemma pres_body_end i : Pres (LBodyEnd i).
Proof. intros s s' I H. exact (pres_end_body i false s s' I H). Qed.

Lemma pres_body_panic i : Pres (LBodyPanic i).
Proof. intros s s' I H. exact (pres_end_body i true s s' I H). Qed.

Lemma hso_same_pcs k t t' :
  tk t' = tk t -> holds_slot t' = holds_slot t -> holds_slot_of k t' = holds_slot_of k t.
Proof. unfold holds_slot_of; intros -> ->; reflexivity. Qed.

Lemma pres_prelude i : Pres (LPrelude i).
Proof.
  start I H. get_task H t Et.
  destruct (pc t) eqn:Ep; try discriminate. destruct (mu_held s) eqn:Emu; [discriminate|].
  pose proof (Forall_nth _ _ _ _ (i_tasks _ _ _ I) Et) as Hok.
  unfold task_ok in Hok; rewrite Ep in Hok. destruct Hok as (Hr & Hs).
  apply stamps_inv in Hs. destruct Hs as (S1 & S2 & S3 & S4).
  destruct (quiescing s) eqn:Eq.
  - (* refused *)
    inversion H; subst; clear H. split; [|reflexivity].
    apply (InvN_mono caps (clock s) (S (clock s))) in I; [|lia].
    eapply inv_put_task with (t := t); eauto.
    + destruct (is_limited (tk t)) eqn:El; unfold task_ok; cbn; unfold stamps; cbn; rewrite S1, S2, S3, S4.
      * auto.
      * split; [|reflexivity]. eexists; split; [reflexivity|discriminate].
    + destruct (is_limited (tk t)); cbn; unfold in_flight; rewrite Ep; reflexivity.
    + intros k. destruct (is_limited (tk t)) eqn:El.
      * rewrite hso_pc. unfold holds_slot_of, holds_slot. rewrite Ep, El. reflexivity.
      * rewrite hso_refuse. symmetry. apply holds_slot_of_false_nonlimited. exact El.
    + destruct (is_limited (tk t)); reflexivity.
    + destruct (is_limited (tk t)); reflexivity.
  - (* accepted *)
    inversion H; subst; clear H. split; [|reflexivity].
    pose proof (i_ghost _ _ _ I) as (Gq & _). rewrite Eq in Gq.
    assert (Gqn : g_quiesce_at (gh s) = None) by (destruct (g_quiesce_at (gh s)); [discriminate | reflexivity]).
    assert (Gdn : g_drained_at (gh s) = None).
    { destruct (g_drained_at (gh s)) as [d|] eqn:Ed; [|reflexivity].
      destruct (i_drained _ _ _ I d Ed) as (Q & _). congruence. }
    apply (InvN_mono caps (clock s) (S (clock s))) in I; [|lia]. destruct I.
    set (t' := {| tk := tk t; pc := TAccepted; t_ret := if is_sync (tk t) then None else Some RNil;
                  t_acc_at := Some (clock s); t_begin_at := None; t_end_at := None; t_post_at := None;
                  t_panicked := false |}).
    assert (Hf : in_flight t = false) by (unfold in_flight; rewrite Ep; reflexivity).
    assert (Hf' : in_flight t' = true) by reflexivity.
    constructor; simp_st; try assumption.
    + apply Forall_upd; [assumption|]. unfold task_ok; cbn. split; [reflexivity|].
      exists (clock s). split; [reflexivity | lia].
    + pose proof (count_upd in_flight _ _ _ t' Et). rewrite Hf, Hf' in H. cbn in H. lia.
    + intros k cap len Hk. rewrite (count_upd_same _ _ _ _ t' Et); [eauto|].
      unfold holds_slot_of, holds_slot; cbn. rewrite Ep. reflexivity.
    + intros j th Hj. destruct (i_wait0 j th Hj) as (W1 & W2). split; [intros E; specialize (W1 E); lia | exact W2].
    + intros q Hq. congruence.
    + intros d Hd. congruence.
Qed.

Lemma active_wake th : active (wake th) = active th.
Proof. unfold wake, active. destruct th as [b p]; cbn. destruct p; reflexivity. Qed.

Lemma wake_sp th : sp (wake th) = match sp th with SQWait => SQWoken | p => p end.
Proof. unfold wake. destruct th as [b p]; cbn. destruct p; reflexivity. Qed.

Lemma wake_is_stop th : s_is_stop (wake th) = s_is_stop th.
Proof. unfold wake. destruct (sp th); reflexivity. Qed.

Lemma pres_postlude i : Pres (LPostlude i).
Proof.
  start I H. get_task H t Et.
  destruct (pc t) eqn:Ep; try discriminate. destruct (mu_held s) eqn:Emu; [discriminate|].
  inversion H; subst; clear H. split; [|reflexivity].
  pose proof (Forall_nth _ _ _ _ (i_tasks _ _ _ I) Et) as Hok.
  unfold task_ok in Hok; rewrite Ep in Hok. destruct Hok as (Hr & a & b & e & Hs & L1 & L2 & L3).
  apply stamps_inv in Hs. destruct Hs as (S1 & S2 & S3 & S4).
  assert (Hf : in_flight t = true) by (unfold in_flight; rewrite Ep; reflexivity).
  pose proof (count_pos_of in_flight _ _ _ Et Hf) as Hpos.
  assert (Gdn : g_drained_at (gh s) = None).
  { destruct (g_drained_at (gh s)) as [d|] eqn:Ed; [|reflexivity].
    destruct (i_drained _ _ _ I d Ed) as (_ & N & _). rewrite (i_num _ _ _ I) in N. lia. }
  apply (InvN_mono caps (clock s) (S (clock s))) in I; [|lia]. destruct I.
  set (t' := {| tk := tk t; pc := TDone; t_ret := Some RNil; t_acc_at := t_acc_at t;
                t_begin_at := t_begin_at t; t_end_at := t_end_at t; t_post_at := Some (clock s);
                t_panicked := t_panicked t |}).
  assert (Hf' : in_flight t' = false) by reflexivity.
  constructor; simp_st; try assumption.
  - apply Forall_upd; [assumption|]. unfold task_ok; cbn. split; [reflexivity|].
    exists a, b, e, (clock s). unfold stamps; cbn. rewrite S1, S2, S3. repeat split; try assumption; lia.
  - pose proof (count_upd in_flight _ _ _ t' Et). rewrite Hf, Hf' in H. cbn in H. lia.
  - intros k cap len Hk. rewrite (count_upd_same _ _ _ _ t' Et); [eauto|].
    unfold holds_slot_of, holds_slot; cbn. rewrite Ep. rewrite !andb_false_r. reflexivity.
  - apply Forall_map_same; [|assumption]. intros th W. unfold thread_wf in *. rewrite wake_is_stop, wake_sp.
    intros E. specialize (W E). destruct (sp th); auto.
  - rewrite count_map_same by apply active_wake. assumption.
  - intros j th Hj Ha. apply nth_map_inv in Hj. destruct Hj as (th0 & Hj & ->).
    rewrite active_wake in Ha. specialize (i_phase0 j th0 Hj Ha). rewrite wake_sp.
    destruct (sp th0); exact i_phase0.
  - intros j th Hj. apply nth_map_inv in Hj. destruct Hj as (th0 & Hj & ->).
    destruct (i_wait0 j th0 Hj) as (W1 & W2). rewrite wake_sp. split.
    + destruct (sp th0); discriminate.
    + intros [E|E]; destruct (sp th0) eqn:E0; try discriminate; apply W2; auto.
  - intros q Hq. apply Forall_upd; [eauto|]. cbn. exact (Forall_nth _ _ _ _ (i_accq0 q Hq) Et).
  - intros d Hd. congruence.
Qed.

Lemma pres_worker_start : Pres LWorkerStart.
Proof.
  start I H. inversion H; subst; clear H. split; [|reflexivity].
  pose proof (i_ghost _ _ _ I) as (_ & _ & _ & _ & _ & _ & _ & Gw & _).
  apply (InvN_mono caps (clock s) (S (clock s))) in I; [|lia]. destruct I.
  constructor; simp_st; try assumption.
  - rewrite count_app1. cbn. lia.
  - apply Forall_app1; [assumption|]. unfold worker_ok; cbn. split; [lia|]. split; [reflexivity|].
    destruct (g_wgdone_at (gh s)) as [tw|] eqn:Ew; split; try discriminate.
    intros _. exists tw. split; [reflexivity|]. destruct (Gw tw eq_refl) as (? & ? & ? & ?). lia.
Qed.

Lemma pres_worker_body_end w : Pres (LWorkerBodyEnd w).
Proof.
  start I H. destruct (nth_error (workers s) w) as [wk|] eqn:Ew; [|discriminate].
  destruct (wp wk) eqn:Ep; try discriminate. inversion H; subst; clear H. split; [|reflexivity].
  pose proof (Forall_nth _ _ _ _ (i_workers _ _ _ I) Ew) as (A & B & C & D).
  apply (InvN_mono caps (clock s) (S (clock s))) in I; [|lia]. destruct I.
  constructor; simp_st; try assumption.
  - rewrite (count_upd_same worker_live _ _ wk); [assumption|assumption|].
    unfold worker_live; cbn. rewrite Ep. reflexivity.
  - apply Forall_upd; [assumption|]. unfold worker_ok; cbn. split; [lia|]. split.
    + exists (clock s). repeat split; lia.
    + split; [|exact D]. intros Hc tw Ht. destruct (C Hc tw Ht) as (_ & F & _). congruence.
Qed.

Lemma pres_worker_done w : Pres (LWorkerDone w).
Proof.
  start I H. destruct (nth_error (workers s) w) as [wk|] eqn:Ew; [|discriminate].
  destruct (wp wk) eqn:Ep; try discriminate. destruct (wg s <=? 0)%Z eqn:Eg; [discriminate|].
  inversion H; subst; clear H. split; [|reflexivity].
  pose proof (Forall_nth _ _ _ _ (i_workers _ _ _ I) Ew) as (A & B & C & D). rewrite Ep in B.
  apply (InvN_mono caps (clock s) (S (clock s))) in I; [|lia]. destruct I.
  constructor; simp_st; try assumption.
  - match goal with |- context [upd _ _ ?x] => set (wk' := x) end.
    pose proof (count_upd worker_live _ _ _ wk' Ew) as Hc.
    assert (L1 : worker_live wk = true) by (unfold worker_live; rewrite Ep; reflexivity).
    assert (L2 : worker_live wk' = false) by reflexivity.
    rewrite L1, L2 in Hc. cbn [b2n] in Hc. lia.
  - apply Forall_upd; [assumption|]. unfold worker_ok; cbn. split; [lia|]. split.
    + destruct B as (e & E1 & E2 & E3). exists e. repeat split; try assumption; lia.
    + split; [|exact D]. intros Hc tw Ht. destruct (C Hc tw Ht) as (_ & F & _). congruence.
Qed.

Lemma ghost_closers_none n q sd g : ghost_ok n q false sd g -> g_closers_at g = None /\ g_stop_at g = None.
Proof.
  intros (_ & B & _ & _ & _ & _ & _ & H & I & _).
  assert (S0 : g_stop_at g = None) by (destruct (g_stop_at g); [discriminate | reflexivity]).
  split; [|exact S0].
  destruct (g_closers_at g) as [tc|] eqn:E; [|reflexivity].
  destruct (I tc eq_refl) as (tw & Ew & _). destruct (H tw Ew) as (ts & Es & _). congruence.
Qed.

Lemma pres_add_closer : Pres LAddCloser.
Proof.
  start I H. destruct (mu_held s); [discriminate|]. inversion H; subst; clear H. split; [|reflexivity].
  pose proof (i_ghost _ _ _ I) as G.
  apply (InvN_mono caps (clock s) (S (clock s))) in I; [|lia]. destruct I.
  constructor; simp_st; try assumption.
  apply Forall_app1; [assumption|]. unfold closer_ok; cbn. split; [lia|].
  destruct (stop_ch s) eqn:Es; cbn.
  - repeat split. destruct G as (_ & B & _ & _ & _ & _ & Gs & _).
    destruct (g_stop_at (gh s)) as [ts|] eqn:E; [|discriminate].
    exists ts. split; [reflexivity|]. destruct (Gs ts eq_refl) as (? & ? & ? & ?). lia.
  - destruct (ghost_closers_none _ _ _ _ G) as (E1 & E2). rewrite E1. repeat split.
    intros ts Hts. congruence.
Qed.

Lemma pres_with_cancel onq : Pres (LWithCancel onq).
Proof.
  start I H. destruct (mu_held s); [discriminate|]. inversion H; subst; clear H. split; [|reflexivity].
  apply (InvN_mono caps (clock s) (S (clock s))) in I; [|lia]. destruct I.
  constructor; simp_st; try assumption.
  apply Forall_app1; [assumption|]. unfold ctx_ok; cbn.
  repeat split; try discriminate.
  - destruct (if onq then quiescing s else stop_ch s); cbn; congruence.
  - destruct (if onq then quiescing s else stop_ch s); cbn; congruence.
  - intros -> ->. reflexivity.
  - intros -> ->. reflexivity.
Qed.

Lemma pres_cancel_fn x : Pres (LCancelFn x).
Proof.
  start I H. destruct (nth_error (ctxs s) x) as [c|] eqn:Ex; [|discriminate].
  destruct (x_mid c); [discriminate|].
  destruct (x_noop c) eqn:En.
  - inversion H; subst; clear H. split; [|reflexivity]. eapply InvN_mono; [|eassumption]. lia.
  - inversion H; subst; clear H. split; [|reflexivity].
    apply (InvN_mono caps (clock s) (S (clock s))) in I; [|lia]. destruct I.
    constructor; simp_st; try assumption.
    apply Forall_upd; [assumption|]. unfold ctx_ok; cbn. repeat split; try discriminate; auto.
Qed.

Lemma pres_cancel_del x : Pres (LCancelDel x).
Proof.
  start I H. destruct (nth_error (ctxs s) x) as [c|] eqn:Ex; [|discriminate].
  destruct (x_mid c) eqn:Em; [|discriminate]. destruct (mu_held s); [discriminate|].
  inversion H; subst; clear H. split; [|reflexivity].
  pose proof (Forall_nth _ _ _ _ (i_ctxs _ _ _ I) Ex) as (C1 & C2 & C3 & C4 & C5).
  destruct (C1 Em) as (Hc & Hn).
  apply (InvN_mono caps (clock s) (S (clock s))) in I; [|lia]. destruct I.
  constructor; simp_st; try assumption.
  apply Forall_upd; [assumption|]. unfold ctx_ok; cbn. repeat split; try discriminate; auto.
Qed.

(** ** Stop / Quiesce threads *)

Lemma b2n_le1 b : b2n b <= 1.
Proof. destruct b; cbn; lia. Qed.

Lemma phase_after_upd (ths : list sthread) j th newth g' mu' :
  count active ths <= 1 -> nth_error ths j = Some th -> active th = true ->
  (active newth = true -> phase_ok g' mu' (sp newth)) ->
  forall j' th', nth_error (upd ths j newth) j' = Some th' -> active th' = true ->
                 phase_ok g' mu' (sp th').
Proof.
  intros Hc Hj Ha Hn j' th' Hj' Ha'. apply nth_upd in Hj'. destruct Hj' as [[<- ->]|[N Hj']].
  - auto.
  - exfalso. apply N. eapply count_one_unique; eauto.
Qed.

Lemma worker_ok_gh n g g' w : g_wgdone_at g' = g_wgdone_at g -> worker_ok n g w -> worker_ok n g' w.
Proof. unfold worker_ok; intros ->; auto. Qed.

Lemma closer_ok_gh n g g' c :
  g_stop_at g' = g_stop_at g -> g_closers_at g' = g_closers_at g -> closer_ok n g c -> closer_ok n g' c.
Proof. unfold closer_ok; intros -> ->; auto. Qed.

Ltac crack_task :=
  repeat match goal with
         | H : _ /\ _ |- _ => destruct H
         | H : exists _, _ |- _ => destruct H
         | H : (_, _, _, _) = (_, _, _, _) |- _ => inversion H; clear H
         end.

Lemma task_acc_lt n t a : task_ok n t -> t_acc_at t = Some a -> a < n.
Proof.
  unfold task_ok, stamps; intros H E.
  destruct (pc t); crack_task; try congruence;
    match goal with
    | H1 : t_acc_at t = Some ?x |- _ => assert (a = x) by congruence; subst; lia
    end.
Qed.

(** a task that was accepted and is no longer counted has run its postlude *)
Lemma task_done_post n t a : task_ok n t -> in_flight t = false -> t_acc_at t = Some a ->
  exists p, t_post_at t = Some p /\ p < n.
Proof.
  unfold task_ok, in_flight, stamps; intros H F E.
  destruct (pc t); try discriminate; crack_task; try congruence.
  eexists; split; [eassumption | lia].
Qed.

Lemma pres_call_stop : Pres LCallStop.
Proof.
  start I H. inversion H; subst; clear H. split; [|reflexivity].
  apply (InvN_mono caps (clock s) (S (clock s))) in I; [|lia]. destruct I.
  constructor; simp_st; try assumption.
  - apply Forall_app1; [assumption|]. unfold thread_wf; cbn. discriminate.
  - rewrite count_app1. cbn. lia.
  - intros j th Hj Ha. apply nth_app1 in Hj. destruct Hj as [Hj|[_ ->]]; [eauto | discriminate].
  - intros j th Hj. apply nth_app1 in Hj. destruct Hj as [Hj|[_ ->]]; [eauto|].
    cbn. split; [discriminate | intros [?|?]; discriminate].
Qed.

Lemma pres_call_quiesce : Pres LCallQuiesce.
Proof.
  start I H. inversion H; subst; clear H. split; [|reflexivity].
  apply (InvN_mono caps (clock s) (S (clock s))) in I; [|lia]. destruct I.
  constructor; simp_st; try assumption.
  - apply Forall_app1; [assumption|]. unfold thread_wf; cbn. auto.
  - rewrite count_app1. cbn. lia.
  - intros j th Hj Ha. apply nth_app1 in Hj. destruct Hj as [Hj|[_ ->]]; [eauto | discriminate].
  - intros j th Hj. apply nth_app1 in Hj. destruct Hj as [Hj|[_ ->]]; [eauto|].
    cbn. split; [discriminate | intros [?|?]; discriminate].
Qed.

(** A thread changes its program counter; nothing else changes. *)
Lemma inv_put_thread m s j th p' :
  InvN caps m s -> nth_error (sthreads s) j = Some th ->
  active {| s_is_stop := s_is_stop th; sp := p' |} = active th ->
  thread_wf {| s_is_stop := s_is_stop th; sp := p' |} ->
  (active th = true -> phase_ok (gh s) (mu_held s) p') ->
  (p' = SQWait -> (0 < num_tasks s)%Z) ->
  (p' = SQWait \/ p' = SQWoken -> quiescing s = true) ->
  InvN caps m (put_thread s j (s_is_stop th) p').
Proof.
  intros [] Hj Ha Hw Hp H1 H2.
  constructor; simp_st; try assumption.
  - apply Forall_upd; assumption.
  - rewrite (count_upd_same active _ _ th); assumption.
  - intros j' th' Hj' Ha'. apply nth_upd in Hj'. destruct Hj' as [[<- ->]|[N Hj']]; [|eauto].
    cbn. apply Hp. rewrite <- Ha. exact Ha'.
  - intros j' th' Hj'. apply nth_upd in Hj'. destruct Hj' as [[<- ->]|[N Hj']]; [|eauto]. cbn. auto.
Qed.

Lemma ghost_chain_none n q sc sd g : ghost_ok n q sc sd g -> g_drained_at g = None ->
  g_stop_at g = None /\ g_wgdone_at g = None /\ g_closers_at g = None /\ g_stopped_at g = None /\
  sc = false /\ sd = false.
Proof.
  intros (_ & B & C & _ & _ & _ & G & H & I & J) D.
  assert (S0 : g_stop_at g = None).
  { destruct (g_stop_at g) as [x|] eqn:E; [|reflexivity]. destruct (G x eq_refl) as (? & ? & _). congruence. }
  assert (W0 : g_wgdone_at g = None).
  { destruct (g_wgdone_at g) as [x|] eqn:E; [|reflexivity]. destruct (H x eq_refl) as (? & ? & _). congruence. }
  assert (C0 : g_closers_at g = None).
  { destruct (g_closers_at g) as [x|] eqn:E; [|reflexivity]. destruct (I x eq_refl) as (? & ? & _). congruence. }
  assert (D0 : g_stopped_at g = None).
  { destruct (g_stopped_at g) as [x|] eqn:E; [|reflexivity]. destruct (J x eq_refl) as (? & ? & _). congruence. }
  rewrite S0 in B. rewrite D0 in C. cbn in B, C. repeat split; assumption.
Qed.

Lemma count_zero_nth {A} (f : A -> bool) l j x : count f l = 0 -> nth_error l j = Some x -> f x = false.
Proof. intros H E. exact (Forall_nth _ _ _ _ (count_zero_all f l H) E). Qed.

Lemma pres_stop_enter j : Pres (LStopEnter j).
Proof.
  start I H. destruct (nth_error (sthreads s) j) as [th|] eqn:Ej; [|discriminate].
  destruct (sp th) eqn:Ep; try discriminate. destruct (mu_held s) eqn:Emu; [discriminate|].
  assert (Hst : s_is_stop th = true).
  { destruct (s_is_stop th) eqn:E; [reflexivity|]. pose proof (Forall_nth _ _ _ _ (i_twf _ _ _ I) Ej) as W.
    unfold thread_wf in W. rewrite Ep in W. destruct (W E). }
  assert (Hna : active th = false) by (unfold active; rewrite Ep, andb_false_r; reflexivity).
  destruct (stop_called s) eqn:Esc.
  - inversion H; subst; clear H. split; [|reflexivity].
    apply (InvN_mono caps (clock s) (S (clock s))) in I; [|lia].
    rewrite <- Hst. eapply inv_put_thread; eauto.
    + rewrite Hna. unfold active; cbn. apply andb_false_r.
    + unfold thread_wf; cbn. auto.
    + rewrite Hna; discriminate.
    + discriminate.
    + intros [?|?]; discriminate.
  - inversion H; subst; clear H. split; [|reflexivity].
    pose proof (i_idle _ _ _ I) as Hid. rewrite Esc in Hid. cbn in Hid. destruct (Hid eq_refl) as (_ & Hd).
    specialize (Hd eq_refl).
    destruct (ghost_chain_none _ _ _ _ _ (i_ghost _ _ _ I) Hd) as (_ & _ & _ & _ & _ & Hsd).
    pose proof (i_active _ _ _ I) as Hac. rewrite Esc in Hac. cbn in Hac.
    apply (InvN_mono caps (clock s) (S (clock s))) in I; [|lia]. destruct I.
    constructor; simp_st; try assumption.
    + apply Forall_upd; [assumption|]. unfold thread_wf; cbn. discriminate.
    + rewrite Hsd. cbn.
      match goal with |- context [upd _ _ ?x] => pose proof (count_upd active _ _ _ x Ej) as Hc end.
      rewrite Hna in Hc. cbn in Hc. lia.
    + intros j' th' Hj' Ha'. apply nth_upd in Hj'. destruct Hj' as [[<- ->]|[N Hj']].
      * cbn. auto.
      * rewrite (count_zero_nth _ _ _ _ Hac Hj') in Ha'. discriminate.
    + rewrite Hsd. cbn. discriminate.
    + intros j' th' Hj'. apply nth_upd in Hj'. destruct Hj' as [[<- ->]|[N Hj']]; [|eauto].
      cbn. split; [discriminate | intros [?|?]; discriminate].
Qed.

Lemma inv_quiesce_test s0 j th :
  InvN caps (S (clock s0)) s0 -> Forall (task_ok (clock s0)) (tasks s0) ->
  nth_error (sthreads s0) j = Some th -> (sp th = SQuiesce \/ sp th = SQWoken) ->
  quiescing s0 = true ->
  InvN caps (S (clock s0)) (quiesce_test s0 j (s_is_stop th)).
Proof.
  intros I Hstrict Ej Hsp Hq. unfold quiesce_test.
  destruct (0 <? num_tasks s0)%Z eqn:En.
  - eapply inv_put_thread; eauto.
    + unfold active; cbn. destruct Hsp as [-> | ->]; reflexivity.
    + unfold thread_wf; cbn. auto.
    + intros Ha. pose proof (i_phase _ _ _ I j th Ej Ha) as P. destruct Hsp as [E|E]; rewrite E in P; exact P.
    + intros _. lia.
  - unfold quiesce_finish. destruct (s_is_stop th) eqn:Est.
    + (* the Stop caller: tasks drained *)
      assert (Ha : active th = true) by (unfold active; rewrite Est; destruct Hsp as [-> | ->]; reflexivity).
      pose proof (i_phase _ _ _ I j th Ej Ha) as P.
      assert (P' : g_drained_at (gh s0) = None /\ mu_held s0 = false) by (destruct Hsp as [E|E]; rewrite E in P; exact P).
      destruct P' as (Pd & Pmu).
      destruct (ghost_chain_none _ _ _ _ _ (i_ghost _ _ _ I) Pd) as (G1 & G2 & G3 & G4 & G5 & G6).
      assert (Hn0 : num_tasks s0 = 0%Z) by (rewrite (i_num _ _ _ I) in *; lia).
      assert (Hc0 : count in_flight (tasks s0) = 0) by (rewrite (i_num _ _ _ I) in Hn0; lia).
      pose proof (i_active _ _ _ I) as Hact. pose proof (b2n_le1 (stop_called s0 && negb (stopped_ch s0))) as Hle.
      pose proof (count_pos_of active _ _ _ Ej Ha) as Hpos.
      assert (Hsc : stop_called s0 && negb (stopped_ch s0) = true).
      { destruct (stop_called s0 && negb (stopped_ch s0)); [reflexivity|]. cbn in Hact. lia. }
      destruct I.
      constructor; simp_st; try assumption.
      * apply Forall_upd; [assumption|]. unfold thread_wf; cbn. discriminate.
      * rewrite (count_upd_same active _ _ th); [assumption|assumption|]. rewrite Ha. reflexivity.
      * eapply phase_after_upd; eauto; [lia|]. intros _. cbn. rewrite Pd. cbn. repeat split; [discriminate | assumption | assumption].
      * rewrite Hsc. discriminate.
      * intros j' th' Hj'. apply nth_upd in Hj'. destruct Hj' as [[<- ->]|[N Hj']]; [|eauto].
        cbn. split; [discriminate | intros [?|?]; discriminate].
      * destruct i_ghost0 as (A & B & C & D & E & F & G & H & I & J). unfold ghost_ok. cbn. rewrite Pd. cbn.
        repeat split; try assumption.
        -- intros d Hd. inversion Hd; subst d. rewrite Hq in A.
           destruct (g_quiesce_at (gh s0)) as [q'|] eqn:Eq; [|discriminate]. exists q'. cbn in D. repeat split; lia.
        -- intros ts Hts. congruence.
      * intros d Hd. cbn in Hd. rewrite Pd in Hd. cbn in Hd. inversion Hd; subst d.
        repeat split; try assumption.
        rewrite Forall_forall. intros t Ht a Hacc. rewrite Forall_forall in Hstrict.
        eapply task_done_post; eauto.
        pose proof (count_zero_all _ _ Hc0) as Z. rewrite Forall_forall in Z. auto.
    + (* a plain Quiesce caller returns *)
      rewrite <- Est. eapply inv_put_thread; eauto.
      * unfold active; cbn. rewrite Est. reflexivity.
      * unfold thread_wf; cbn. auto.
      * unfold active. rewrite Est. discriminate.
      * discriminate.
Qed.

Definition qset (s : st) : st :=
  let s1 := set_ctxs s (map (cancel_registered true) (ctxs s)) in
  set_quiescing s1 (g_set_quiesce (gh s1) (clock s)).

Lemma ctx_ok_cancel (q sc onq : bool) (c : cctx) :
  ctx_ok q sc c ->
  ctx_ok (if onq then true else q) (if onq then sc else true) (cancel_registered onq c).
Proof.
  unfold ctx_ok, cancel_registered. intros (C1 & C2 & C3 & C4 & C5).
  destruct (x_registered c) eqn:Er; cbn [andb].
  - destruct (Bool.eqb (x_onq c) onq) eqn:Eo; cbn.
    + intuition congruence.
    + assert (x_onq c <> onq) by (intros E; rewrite E, eqb_reflx in Eo; discriminate).
      destruct onq, (x_onq c); intuition congruence.
  - pose proof (C2 eq_refl). intuition congruence.
Qed.

Lemma inv_qset s : InvN caps (clock s) s -> InvN caps (S (clock s)) (qset s).
Proof.
  intros I.
  assert (Hacc : Forall (fun t => forall a, t_acc_at t = Some a -> a < clock s) (tasks s)).
  { eapply Forall_impl'; [apply (i_tasks _ _ _ I)|]. intros t Hok a Ha. eapply task_acc_lt; eauto. }
  apply (InvN_mono caps (clock s) (S (clock s))) in I; [|lia]. destruct I.
  unfold qset. constructor; simp_st; try assumption.
  - intros j th Hj. destruct (i_wait0 j th Hj). split; auto.
  - destruct i_ghost0 as (A & B & C & D & E & F & G & H & I & J). unfold ghost_ok. cbn.
    repeat split; try assumption.
    + destruct (g_quiesce_at (gh s)); reflexivity.
    + destruct (g_quiesce_at (gh s)); cbn in *; lia.
    + intros d Hd. destruct (F d Hd) as (q' & Eq & L1 & L2). rewrite Eq. cbn. eauto.
  - intros q Hq. cbn in Hq. destruct (g_quiesce_at (gh s)) as [q0|] eqn:Eq; cbn in Hq.
    + apply i_accq0. exact Hq.
    + inversion Hq; subst q. exact Hacc.
  - intros d Hd. destruct (i_drained0 d Hd) as (Q & N & F). auto.
  - eapply Forall_map_impl; [|eassumption]. intros c Hc.
    exact (ctx_ok_cancel _ _ true c Hc).
Qed.

Lemma is_stop_of_wf (ths : list sthread) j th :
  Forall thread_wf ths -> nth_error ths j = Some th ->
  match sp th with SQuiesce | SQWait | SQWoken | SReturned => False | _ => True end ->
  s_is_stop th = true.
Proof.
  intros F E H. destruct (s_is_stop th) eqn:Es; [reflexivity|].
  pose proof (Forall_nth _ _ _ _ F E Es) as W. destruct (sp th); tauto.
Qed.

Lemma pres_quiesce_set j : Pres (LQuiesceSet j).
Proof.
  start I H. destruct (nth_error (sthreads s) j) as [th|] eqn:Ej; [|discriminate].
  destruct (sp th) eqn:Ep; try discriminate. destruct (mu_held s) eqn:Emu; [discriminate|].
  inversion H; subst; clear H.
  change (InvN caps (S (clock s)) (quiesce_test (qset s) j (s_is_stop th)) /\
          clock (quiesce_test (qset s) j (s_is_stop th)) = clock s).
  split.
  - apply (inv_quiesce_test (qset s) j th).
    + exact (inv_qset s I).
    + exact (i_tasks _ _ _ I).
    + exact Ej.
    + left; exact Ep.
    + reflexivity.
  - unfold quiesce_test, quiesce_finish. destruct (0 <? num_tasks (qset s))%Z; [reflexivity|].
    destruct (s_is_stop th); reflexivity.
Qed.

Lemma pres_qrecheck j : Pres (LQRecheck j).
Proof.
  start I H. destruct (nth_error (sthreads s) j) as [th|] eqn:Ej; [|discriminate].
  destruct (sp th) eqn:Ep; try discriminate. destruct (mu_held s) eqn:Emu; [discriminate|].
  inversion H; subst; clear H. split.
  - apply (inv_quiesce_test s j th).
    + eapply InvN_mono; [|eassumption]. lia.
    + exact (i_tasks _ _ _ I).
    + exact Ej.
    + right; exact Ep.
    + destruct (i_wait _ _ _ I j th Ej) as (_ & W). auto.
  - unfold quiesce_test, quiesce_finish. destruct (0 <? num_tasks s)%Z; [reflexivity|].
    destruct (s_is_stop th); reflexivity.
Qed.

Lemma stop_thread_facts n s j th :
  InvN caps n s -> nth_error (sthreads s) j = Some th ->
  match sp th with SStopClose | SWgWait | SClosers | SStopped => True | _ => False end ->
  s_is_stop th = true /\ active th = true /\ count active (sthreads s) <= 1 /\
  stop_called s && negb (stopped_ch s) = true /\ phase_ok (gh s) (mu_held s) (sp th).
Proof.
  intros I Ej Hp.
  assert (Hst : s_is_stop th = true).
  { eapply is_stop_of_wf; [apply (i_twf _ _ _ I) | exact Ej |]. destruct (sp th); tauto. }
  assert (Ha : active th = true) by (unfold active; rewrite Hst; destruct (sp th); tauto).
  pose proof (i_active _ _ _ I) as Hact. pose proof (b2n_le1 (stop_called s && negb (stopped_ch s))) as Hle.
  pose proof (count_pos_of active _ _ _ Ej Ha) as Hpos.
  repeat split; try assumption; try lia.
  - destruct (stop_called s && negb (stopped_ch s)); [reflexivity|]. cbn in Hact. lia.
  - exact (i_phase _ _ _ I j th Ej Ha).
Qed.

Lemma pres_stop_close j : Pres (LStopClose j).
Proof.
  start I H. destruct (nth_error (sthreads s) j) as [th|] eqn:Ej; [|discriminate].
  destruct (sp th) eqn:Ep; try discriminate. destruct (mu_held s) eqn:Emu; [discriminate|].
  destruct (stop_ch s) eqn:Esc; [discriminate|]. inversion H; subst; clear H. split; [|reflexivity].
  destruct (stop_thread_facts _ _ _ _ I Ej) as (Hst & Ha & Hle & Hsc & P); [rewrite Ep; exact Logic.I|].
  rewrite Ep in P. destruct P as (Pd & Ps & _).
  pose proof (i_ghost _ _ _ I) as (GA & GB & GC & GD & GE & GF & GG & GH & GI & GJ).
  assert (Gw : g_wgdone_at (gh s) = None).
  { destruct (g_wgdone_at (gh s)) as [x|] eqn:E; [|reflexivity]. destruct (GH x eq_refl) as (? & ? & _). congruence. }
  assert (Gc : g_closers_at (gh s) = None).
  { destruct (g_closers_at (gh s)) as [x|] eqn:E; [|reflexivity]. destruct (GI x eq_refl) as (? & ? & _). congruence. }
  assert (Hcl : Forall (closer_ok (S (clock s)) (g_set_stop (gh s) (clock s))) (closers s)).
  { eapply Forall_impl'; [apply (i_closers _ _ _ I)|]. intros c (A & B). unfold closer_ok. split; [lia|].
    destruct (c_after_stop c).
    - destruct B as (_ & _ & _ & ts & E & _). congruence.
    - destruct B as (B1 & B2 & B3). split; [exact B1|]. split; [|exact B3].
      intros ts Hts. cbn in Hts. rewrite Ps in Hts. cbn in Hts. inversion Hts; subst. exact A. }
  apply (InvN_mono caps (clock s) (S (clock s))) in I; [|lia]. destruct I.
  constructor; simp_st; try assumption.
  - apply Forall_upd; [assumption|]. unfold thread_wf; cbn. discriminate.
  - rewrite (count_upd_same active _ _ th); [assumption|assumption|]. rewrite Ha. reflexivity.
  - eapply phase_after_upd; eauto. intros _. cbn. rewrite Ps. cbn. repeat split; try discriminate; assumption.
  - intros j' th' Hj'. apply nth_upd in Hj'. destruct Hj' as [[<- ->]|[N Hj']]; [|eauto].
    cbn. split; [discriminate | intros [?|?]; discriminate].
  - unfold ghost_ok. cbn. rewrite Ps. cbn. repeat split; try assumption.
    + destruct (g_quiesce_at (gh s)); cbn in *; lia.
    + destruct (g_stopped_at (gh s)); cbn in *; lia.
    + intros d Hd. destruct (GF d Hd) as (q' & ? & ? & ?). exists q'. repeat split; try assumption; lia.
    + intros ts Hts. inversion Hts; subst ts. destruct (g_drained_at (gh s)) as [d|] eqn:Ed; [|congruence].
      exists d. destruct (GF d eq_refl) as (? & ? & ? & ?). repeat split; lia.
    + intros tw Htw. congruence.
    + intros tc Htc. congruence.
  - eapply Forall_map_impl; [|eassumption]. intros c Hc. exact (ctx_ok_cancel _ _ false c Hc).
Qed.

Lemma pres_wg_wait_done j : Pres (LWgWaitDone j).
Proof.
  start I H. destruct (nth_error (sthreads s) j) as [th|] eqn:Ej; [|discriminate].
  destruct (sp th) eqn:Ep; try discriminate. destruct (wg s =? 0)%Z eqn:Ew; [|discriminate].
  inversion H; subst; clear H. split; [|reflexivity].
  destruct (stop_thread_facts _ _ _ _ I Ej) as (Hst & Ha & Hle & Hsc & P); [rewrite Ep; exact Logic.I|].
  rewrite Ep in P. destruct P as (Ps & Pw & Pmu).
  pose proof (i_ghost _ _ _ I) as (GA & GB & GC & GD & GE & GF & GG & GH & GI & GJ).
  assert (Gc : g_closers_at (gh s) = None).
  { destruct (g_closers_at (gh s)) as [x|] eqn:E; [|reflexivity]. destruct (GI x eq_refl) as (? & ? & _). congruence. }
  assert (Hlive : count worker_live (workers s) = 0) by (pose proof (i_wg _ _ _ I); lia).
  assert (Hw : Forall (worker_ok (S (clock s)) (g_set_wgdone (gh s) (clock s))) (workers s)).
  { pose proof (count_zero_all _ _ Hlive) as Z. rewrite Forall_forall in Z.
    pose proof (i_workers _ _ _ I) as W. rewrite Forall_forall in W. rewrite Forall_forall. intros w Hin.
    destruct (W w Hin) as (A & B & C & D). specialize (Z w Hin). unfold worker_live in Z.
    destruct (wp w) eqn:Ewp; try discriminate. destruct B as (e & E1 & E2 & E3).
    unfold worker_ok. rewrite Ewp. split; [lia|]. split; [exists e; repeat split; try assumption; lia|]. split.
    - intros _ tw Htw. cbn in Htw. rewrite Pw in Htw. cbn in Htw. inversion Htw; subst tw.
      split; [exact A|]. split; [reflexivity|]. exists e. auto.
    - intros Hc. destruct (D Hc) as (tw & Htw & _). congruence. }
  apply (InvN_mono caps (clock s) (S (clock s))) in I; [|lia]. destruct I.
  constructor; simp_st; try assumption.
  - apply Forall_upd; [assumption|]. unfold thread_wf; cbn. discriminate.
  - rewrite (count_upd_same active _ _ th); [assumption|assumption|]. rewrite Ha. reflexivity.
  - eapply phase_after_upd; eauto. intros _. cbn. rewrite Pw. cbn. repeat split; try discriminate; assumption.
  - intros j' th' Hj'. apply nth_upd in Hj'. destruct Hj' as [[<- ->]|[N Hj']]; [|eauto].
    cbn. split; [discriminate | intros [?|?]; discriminate].
  - unfold ghost_ok. cbn. rewrite Pw. cbn. repeat split; try assumption.
    + destruct (g_quiesce_at (gh s)); cbn in *; lia.
    + destruct (g_stopped_at (gh s)); cbn in *; lia.
    + intros d Hd. destruct (GF d Hd) as (q' & ? & ? & ?). exists q'. repeat split; try assumption; lia.
    + intros ts Hts. destruct (GG ts Hts) as (d & ? & ? & ?). exists d. repeat split; try assumption; lia.
    + intros tw Htw. inversion Htw; subst tw. destruct (g_stop_at (gh s)) as [ts|] eqn:Es; [|congruence].
      exists ts. destruct (GG ts eq_refl) as (? & ? & ? & ?). repeat split; lia.
    + intros tc Htc. congruence.
Qed.

Lemma pres_closers_run j : Pres (LClosersRun j).
Proof.
  start I H. destruct (nth_error (sthreads s) j) as [th|] eqn:Ej; [|discriminate].
  destruct (sp th) eqn:Ep; try discriminate. destruct (mu_held s) eqn:Emu; [discriminate|].
  inversion H; subst; clear H. split; [|reflexivity].
  destruct (stop_thread_facts _ _ _ _ I Ej) as (Hst & Ha & Hle & Hsc & P); [rewrite Ep; exact Logic.I|].
  rewrite Ep in P. destruct P as (Pw & Pc & _).
  pose proof (i_ghost _ _ _ I) as (GA & GB & GC & GD & GE & GF & GG & GH & GI & GJ).
  assert (Gd : g_stopped_at (gh s) = None).
  { destruct (g_stopped_at (gh s)) as [x|] eqn:E; [|reflexivity]. destruct (GJ x eq_refl) as (? & ? & _). congruence. }
  assert (Hcl : Forall (closer_ok (S (clock s)) (g_set_closers (gh s) (clock s))) (map (run_closer (clock s)) (closers s))).
  { eapply Forall_map_impl; [|apply (i_closers _ _ _ I)]. intros c (A & B). unfold closer_ok, run_closer.
    destruct (c_after_stop c) eqn:Eas.
    - destruct B as (B1 & B2 & B3 & B4). rewrite B1. rewrite Eas. split; [lia|]. auto.
    - destruct B as (B1 & B2 & B3). rewrite B1. cbn. split; [lia|]. split; [reflexivity|].
      split; [exact B2|]. rewrite Pc in *. cbn. destruct B3 as (-> & _). auto. }
  apply (InvN_mono caps (clock s) (S (clock s))) in I; [|lia]. destruct I.
  constructor; simp_st; try assumption.
  - apply Forall_upd; [assumption|]. unfold thread_wf; cbn. discriminate.
  - rewrite (count_upd_same active _ _ th); [assumption|assumption|]. rewrite Ha. reflexivity.
  - eapply phase_after_upd; eauto. intros _. cbn. rewrite Pc. cbn. repeat split; try discriminate; assumption.
  - rewrite Hsc. discriminate.
  - intros j' th' Hj'. apply nth_upd in Hj'. destruct Hj' as [[<- ->]|[N Hj']]; [|eauto].
    cbn. split; [discriminate | intros [?|?]; discriminate].
  - unfold ghost_ok. cbn. rewrite Pc. cbn. repeat split; try assumption.
    + destruct (g_quiesce_at (gh s)); cbn in *; lia.
    + destruct (g_stopped_at (gh s)); cbn in *; lia.
    + intros d Hd. destruct (GF d Hd) as (q' & ? & ? & ?). exists q'. repeat split; try assumption; lia.
    + intros ts Hts. destruct (GG ts Hts) as (d & ? & ? & ?). exists d. repeat split; try assumption; lia.
    + intros tw Htw. destruct (GH tw Htw) as (d & ? & ? & ?). exists d. repeat split; try assumption; lia.
    + intros tc Htc. inversion Htc; subst tc. destruct (g_wgdone_at (gh s)) as [tw|] eqn:Es; [|congruence].
      exists tw. destruct (GH tw eq_refl) as (? & ? & ? & ?). repeat split; lia.
    + intros td Htd. congruence.
Qed.

Lemma pres_stopped_close j : Pres (LStoppedClose j).
Proof.
  start I H. destruct (nth_error (sthreads s) j) as [th|] eqn:Ej; [|discriminate].
  destruct (sp th) eqn:Ep; try discriminate. destruct (stopped_ch s) eqn:Esd; [discriminate|].
  inversion H; subst; clear H. split; [|reflexivity].
  destruct (stop_thread_facts _ _ _ _ I Ej) as (Hst & Ha & Hle & Hsc & P); [rewrite Ep; exact Logic.I|].
  rewrite Ep in P. destruct P as (Pc & Pd & Pmu).
  pose proof (i_ghost _ _ _ I) as (GA & GB & GC & GD & GE & GF & GG & GH & GI & GJ).
  assert (Hcalled : stop_called s = true) by (destruct (stop_called s); [reflexivity | discriminate]).
  pose proof (i_active _ _ _ I) as Hact. rewrite Hsc in Hact. cbn in Hact.
  apply (InvN_mono caps (clock s) (S (clock s))) in I; [|lia]. destruct I.
  assert (Hnew : active {| s_is_stop := true; sp := SReturned |} = false) by reflexivity.
  assert (Hc0 : count active (upd (sthreads s) j {| s_is_stop := true; sp := SReturned |}) = 0).
  { pose proof (count_upd active _ _ _ {| s_is_stop := true; sp := SReturned |} Ej) as Hc.
    rewrite Ha, Hnew in Hc. cbn in Hc. lia. }
  constructor; simp_st; try assumption.
  - apply Forall_upd; [assumption|]. unfold thread_wf; cbn. discriminate.
  - rewrite Hc0, Hcalled. reflexivity.
  - intros j' th' Hj' Ha'. rewrite (count_zero_nth _ _ _ _ Hc0 Hj') in Ha'. discriminate.
  - intros _. split; [reflexivity|]. congruence.
  - intros j' th' Hj'. apply nth_upd in Hj'. destruct Hj' as [[<- ->]|[N Hj']]; [|eauto].
    cbn. split; [discriminate | intros [?|?]; discriminate].
  - unfold ghost_ok. cbn. rewrite Pd. cbn. repeat split; try assumption.
    + destruct (g_quiesce_at (gh s)); cbn in *; lia.
    + lia.
    + intros d Hd. destruct (GF d Hd) as (q' & ? & ? & ?). exists q'. repeat split; try assumption; lia.
    + intros ts Hts. destruct (GG ts Hts) as (d & ? & ? & ?). exists d. repeat split; try assumption; lia.
    + intros tw Htw. destruct (GH tw Htw) as (d & ? & ? & ?). exists d. repeat split; try assumption; lia.
    + intros tc Htc. destruct (GI tc Htc) as (d & ? & ? & ?). exists d. repeat split; try assumption; lia.
    + intros td Htd. inversion Htd; subst td. destruct (g_closers_at (gh s)) as [tc|] eqn:Es; [|congruence].
      exists tc. destruct (GI tc eq_refl) as (? & ? & ? & ?). split; [reflexivity | lia].
Qed.

Lemma pres_all l : Pres l.
Proof.
  destruct l.
  - apply pres_call_task.
  - apply pres_sem_acquire.
  - apply pres_sem_quiesced.
  - apply pres_sem_ctxdone.
  - apply pres_sem_default.
  - apply pres_ctx_check.
  - apply pres_prelude.
  - apply pres_sem_rel_refused.
  - apply pres_body_begin.
  - apply pres_body_end.
  - apply pres_body_panic.
  - apply pres_sem_release.
  - apply pres_postlude.
  - apply pres_worker_start.
  - apply pres_worker_body_end.
  - apply pres_worker_done.
  - apply pres_add_closer.
  - apply pres_with_cancel.
  - apply pres_cancel_fn.
  - apply pres_cancel_del.
  - apply pres_call_stop.
  - apply pres_call_quiesce.
  - apply pres_stop_enter.
  - apply pres_quiesce_set.
  - apply pres_qrecheck.
  - apply pres_stop_close.
  - apply pres_wg_wait_done.
  - apply pres_closers_run.
  - apply pres_stopped_close.
Qed.

Lemma InvN_tick n s : InvN caps n s -> InvN caps n (tick s).
Proof. intros []. constructor; simp_st; assumption. Qed.

Lemma step_inv s l s' : Inv caps s -> step s l = Next s' -> Inv caps s'.
Proof.
  unfold Inv, step. intros I H. destruct (step0 s l) as [s1| |] eqn:E; try discriminate.
  inversion H; subst; clear H. destruct (pres_all l s s1 I E) as (I1 & Ec).
  cbn [clock tick]. rewrite Ec. apply InvN_tick. exact I1.
Qed.

Lemma inv_init : Inv caps (init caps).
Proof.
  unfold Inv, init. constructor; cbn [clock mu_held quiescing num_tasks stop_called stop_ch stopped_ch wg sems tasks workers closers ctxs sthreads gh].
  - constructor.
  - reflexivity.
  - reflexivity.
  - constructor.
  - intros k0 cap0 len0 H. rewrite nth_error_map in H.
    destruct (nth_error caps k0) as [c|] eqn:E; cbn in H; [|discriminate].
    inversion H; subst. cbn. repeat split; lia.
  - constructor.
  - reflexivity.
  - intros j th H. destruct j; discriminate.
  - intros _. split; reflexivity.
  - intros j th H. destruct j; discriminate.
  - unfold ghost_ok; cbn. repeat split; intros; discriminate.
  - intros q H. discriminate.
  - intros d H. discriminate.
  - constructor.
  - constructor.
Qed.

Theorem reachable_inv s : reachable caps s -> Inv caps s.
Proof. induction 1; [apply inv_init | eapply step_inv; eauto]. Qed.

End Preservation.

(** * The statements of C15 *)

Ltac crack_task :=
  repeat match goal with
         | H : _ /\ _ |- _ => destruct H
         | H : exists _, _ |- _ => destruct H
         | H : (_, _, _, _) = (_, _, _, _) |- _ => inversion H; clear H
         end.

Definition refused (t : task) : Prop := exists r, t_ret t = Some r /\ r <> RNil.

Lemma refused_pc n t : task_ok n t -> refused t -> pc t = TRefused /\ t_begin_at t = None.
Proof.
  unfold task_ok, refused, stamps, ret_running. intros H (r & Hr & Hn). revert H.
  destruct (pc t); intros H; crack_task; try (split; [reflexivity | congruence]); exfalso;
    try congruence;
    match goal with
    | H0 : t_ret _ = (if _ then _ else _) |- _ =>
        rewrite Hr in H0; destruct (is_sync _); inversion H0; subst; congruence
    end.
Qed.

(** A task whose start was refused is never touched again. *)
Lemma refused_frozen_step s l s' i t :
  nth_error (tasks s) i = Some t -> pc t = TRefused -> step s l = Next s' ->
  nth_error (tasks s') i = Some t.
Proof.
  intros Et Ep H. unfold step in H. destruct (step0 s l) as [s1| |] eqn:E; try discriminate.
  inversion H; subst; clear H. cbn [tasks tick].
  assert (Hupd : forall i0 t0 x (s2 : st), nth_error (tasks s) i0 = Some t0 -> pc t0 <> TRefused ->
                   tasks s2 = upd (tasks s) i0 x -> nth_error (tasks s2) i = Some t).
  { intros i0 t0 x s2 E0 N ->. destruct (Nat.eq_dec i0 i) as [->|Ne].
    - rewrite Et in E0. inversion E0; subst. congruence.
    - rewrite nth_upd_other by exact Ne. exact Et. }
  assert (Happ : forall x (s2 : st), tasks s2 = tasks s ++ [x] -> nth_error (tasks s2) i = Some t).
  { intros x s2 ->. rewrite nth_error_app1; [exact Et|]. apply nth_error_Some. congruence. }
  destruct l; cbn [step0] in E; unfold with_task, with_thread, end_body in E;
    repeat match type of E with
           | context [match ?x with _ => _ end] => destruct x eqn:?; try discriminate
           end;
    inversion E; subst; clear E;
    try exact Et;
    try (eapply Happ; reflexivity);
    try (eapply Hupd; [eassumption | congruence | reflexivity]);
    try (eapply Hupd; [eassumption | intros Hx; rewrite Hx in *; cbn in *; discriminate | reflexivity]);
    try (unfold quiesce_test, quiesce_finish;
         repeat match goal with |- context [if ?b then _ else _] => destruct b end; exact Et).
Qed.

Lemma refused_frozen s ls s' i t :
  nth_error (tasks s) i = Some t -> pc t = TRefused -> steps s ls = Some s' ->
  nth_error (tasks s') i = Some t.
Proof.
  revert s; induction ls as [|l ls IH]; intros s Et Ep H; cbn in H.
  - inversion H; subst; exact Et.
  - destruct (step s l) as [s1| |] eqn:E; try discriminate.
    eapply IH; [|exact Ep|exact H]. eapply refused_frozen_step; eauto.
Qed.

Theorem refused_never_runs caps s i t :
  reachable caps s -> nth_error (tasks s) i = Some t -> refused t ->
  t_begin_at t = None /\ step s (LBodyBegin i) = NotEnabled /\
  forall ls s', steps s ls = Some s' -> nth_error (tasks s') i = Some t.
Proof.
  intros R Et Hr. pose proof (reachable_inv caps s R) as I.
  destruct (refused_pc _ _ (Forall_nth _ _ _ _ (i_tasks _ _ _ I) Et) Hr) as (Ep & Eb).
  split; [exact Eb|]. split.
  - unfold step; cbn [step0]; unfold with_task. rewrite Et, Ep. reflexivity.
  - intros ls s' H. eapply refused_frozen; eauto.
Qed.

Lemma task_post_done n t p : task_ok n t -> t_post_at t = Some p ->
  exists a b e, stamps t = (Some a, Some b, Some e, Some p) /\ a < b /\ b < e /\ e < p /\ p < n.
Proof.
  unfold task_ok. intros H E. revert H. unfold stamps.
  destruct (pc t); intros H; crack_task; try congruence.
  match goal with
  | H1 : t_post_at t = Some ?x |- _ => assert (p = x) by congruence; subst
  end.
  do 3 eexists. split; [repeat f_equal; eassumption|]. repeat split; assumption.
Qed.

(** Every task accepted (runPrelude said yes) has begun, ended and run its
    postlude before the stop channel closed -- and was accepted before the
    quiesce channel closed. *)
Theorem accepted_completes_before_stop caps s ts i t a :
  reachable caps s -> g_stop_at (gh s) = Some ts ->
  nth_error (tasks s) i = Some t -> t_acc_at t = Some a ->
  exists q b e p, g_quiesce_at (gh s) = Some q /\ a < q /\
                  stamps t = (Some a, Some b, Some e, Some p) /\ a < b /\ b < e /\ e < p /\ p < ts.
Proof.
  intros R Hs Et Ha. pose proof (reachable_inv caps s R) as I.
  destruct (i_ghost _ _ _ I) as (_ & _ & _ & _ & _ & GF & GG & _).
  destruct (GG ts Hs) as (d & Hd & Ld & _). destruct (GF d Hd) as (q & Hq & _).
  destruct (i_drained _ _ _ I d Hd) as (_ & _ & F).
  destruct (Forall_nth _ _ _ _ F Et a Ha) as (p & Hp & Lp).
  destruct (task_post_done _ _ _ (Forall_nth _ _ _ _ (i_tasks _ _ _ I) Et) Hp) as (a' & b & e & Hst & L1 & L2 & L3 & L4).
  assert (a' = a) by (apply stamps_inv in Hst; destruct Hst as (S1 & _); congruence). subst a'.
  exists q, b, e, p. repeat split; try assumption; try lia.
  exact (Forall_nth _ _ _ _ (i_accq _ _ _ I q Hq) Et a Ha).
Qed.

(** Closers: never twice; exactly once by the time the stopper is stopped;
    one registered after the stop channel closed is called within AddCloser
    itself; one registered before is called by Stop after the workers are
    done and before [stopped] closes. *)
Theorem closers_exactly_once caps s c :
  reachable caps s -> In c (closers s) ->
  c_calls c <= 1 /\
  (stopped_ch s = true -> c_calls c = 1) /\
  (c_after_stop c = true -> c_calls c = 1 /\ c_called_at c = Some (c_added_at c)) /\
  (c_after_stop c = false -> forall td, g_stopped_at (gh s) = Some td ->
     exists tw tc, g_wgdone_at (gh s) = Some tw /\ c_called_at c = Some tc /\
                   c_added_at c < tw /\ tw < tc /\ tc < td).
Proof.
  intros R Hin. pose proof (reachable_inv caps s R) as I.
  pose proof (i_closers _ _ _ I) as F. rewrite Forall_forall in F. destruct (F c Hin) as (A & B).
  destruct (i_ghost _ _ _ I) as (_ & _ & GC & _ & _ & GF & GG & GH & GI & GJ).
  destruct (c_after_stop c) eqn:Eas.
  - destruct B as (B1 & B2 & B3 & B4). repeat split; try lia; try assumption; discriminate.
  - destruct B as (B1 & B2 & B3). split; [destruct (g_closers_at (gh s)); lia|]. split; [|split; [discriminate|]].
    + intros Hsd. rewrite Hsd in GC. destruct (g_stopped_at (gh s)) as [td|] eqn:Etd; [|discriminate].
      destruct (GJ td eq_refl) as (tc & Etc & _). rewrite Etc in B3. lia.
    + intros _ td Htd. destruct (GJ td Htd) as (tc & Etc & Lc). rewrite Etc in B3.
      destruct (GI tc Etc) as (tw & Etw & Lw & _). destruct (GH tw Etw) as (ts & Ets & Ls & _).
      exists tw, tc. specialize (B2 ts Ets). repeat split; try lia; tauto.
Qed.

(** Workers registered before Stop's stop.Wait() returned have returned by
    then (hence before the closers run and before [stopped] closes). *)
Theorem workers_done_before_stopped caps s w tw :
  reachable caps s -> In w (workers s) -> g_wgdone_at (gh s) = Some tw ->
  (w_counted w = true -> w_start_at w < tw /\ exists e, w_end_at w = Some e /\ w_start_at w < e /\ e < tw) /\
  (w_counted w = false -> tw <= w_start_at w) /\
  (forall td, g_stopped_at (gh s) = Some td -> tw < td).
Proof.
  intros R Hin Hw. pose proof (reachable_inv caps s R) as I.
  pose proof (i_workers _ _ _ I) as F. rewrite Forall_forall in F. destruct (F w Hin) as (A & B & C & D).
  destruct (i_ghost _ _ _ I) as (_ & _ & _ & _ & _ & _ & _ & _ & GI & GJ).
  split; [|split].
  - intros Hc. destruct (C Hc tw Hw) as (L & Hd & e & He & Le). split; [exact L|]. exists e.
    rewrite Hd in B. destruct B as (e' & He' & L1 & L2). assert (e' = e) by congruence. subst. auto.
  - intros Hc. destruct (D Hc) as (tw' & Hw' & L). assert (tw' = tw) by congruence. subst. exact L.
  - intros td Htd. destruct (GJ td Htd) as (tc & Etc & Lc). destruct (GI tc Etc) as (tw' & Etw & L & _).
    assert (tw' = tw) by congruence. subst. lia.
Qed.

(** The phases happen in the order quiesce -> tasks drained -> stop ->
    workers done -> closers -> stopped; the three channels are closed
    exactly when their phase has happened. *)
Theorem phase_order caps s :
  reachable caps s ->
  quiescing s = opt_b (g_quiesce_at (gh s)) /\ stop_ch s = opt_b (g_stop_at (gh s)) /\
  stopped_ch s = opt_b (g_stopped_at (gh s)) /\
  (forall d, g_drained_at (gh s) = Some d -> exists q, g_quiesce_at (gh s) = Some q /\ q <= d) /\
  (forall ts, g_stop_at (gh s) = Some ts -> exists d, g_drained_at (gh s) = Some d /\ d < ts) /\
  (forall tw, g_wgdone_at (gh s) = Some tw -> exists ts, g_stop_at (gh s) = Some ts /\ ts < tw) /\
  (forall tc, g_closers_at (gh s) = Some tc -> exists tw, g_wgdone_at (gh s) = Some tw /\ tw < tc) /\
  (forall td, g_stopped_at (gh s) = Some td -> exists tc, g_closers_at (gh s) = Some tc /\ tc < td) /\
  (forall d, g_drained_at (gh s) = Some d ->
     num_tasks s = 0%Z /\
     forall i t a, nth_error (tasks s) i = Some t -> t_acc_at t = Some a ->
                   exists p, t_post_at t = Some p /\ p < d).
Proof.
  intros R. pose proof (reachable_inv caps s R) as I.
  destruct (i_ghost _ _ _ I) as (GA & GB & GC & _ & _ & GF & GG & GH & GI & GJ).
  repeat split; try assumption.
  - intros d Hd. destruct (GF d Hd) as (q & ? & ? & _). eauto.
  - intros d Hd. destruct (GG d Hd) as (q & ? & ? & _). eauto.
  - intros d Hd. destruct (GH d Hd) as (q & ? & ? & _). eauto.
  - intros d Hd. destruct (GI d Hd) as (q & ? & ? & _). eauto.
  - destruct (i_drained _ _ _ I d H) as (_ & N & _). exact N.
  - intros i t a Et Ha. destruct (i_drained _ _ _ I d H) as (_ & _ & F).
    exact (Forall_nth _ _ _ _ F Et a Ha).
Qed.

(** The length of every semaphore is the number of limited tasks between
    their [sem <- struct{}{}] and their [<-sem], and never exceeds the
    capacity. *)
Theorem sem_held_exactly_while_running caps s k cap len :
  reachable caps s -> nth_error (sems s) k = Some (cap, len) ->
  len = count (holds_slot_of k) (tasks s) /\ len <= cap /\ nth_error caps k = Some cap.
Proof. intros R H. exact (i_sems _ _ _ (reachable_inv caps s R) k cap len H). Qed.

(** ... where a running body is between the two, and a finished, refused or
    not yet accepted call is not. *)
Lemma holds_slot_by_pc t :
  is_limited (tk t) = true ->
  (pc t = TBody -> holds_slot t = true) /\
  (pc t = TDone \/ pc t = TRefused \/ pc t = TPost \/ pc t = TSem0 \/ pc t = TSemWait -> holds_slot t = false).
Proof.
  unfold holds_slot. intros ->. split; [intros ->; reflexivity|].
  intros [->|[->|[->|[->| ->]]]]; reflexivity.
Qed.

(** No close of a closed channel, no negative WaitGroup counter. *)
Theorem no_panic caps s l : reachable caps s -> step s l <> Panics.
Proof.
  intros R. pose proof (reachable_inv caps s R) as I. unfold step.
  destruct (step0 s l) as [s1| |] eqn:E; try discriminate. exfalso.
  destruct l; cbn [step0] in E; unfold with_task, with_thread, end_body in E;
    repeat match type of E with
           | context [match ?x with _ => _ end] => destruct x eqn:?; try discriminate
           end; try discriminate;
    try (unfold quiesce_test, quiesce_finish in E;
         repeat match type of E with
                | context [if ?b then _ else _] => destruct b
                end; discriminate).
  - (* LWorkerDone *)
    match goal with Hn : nth_error (workers s) _ = Some ?wk, Hp : wp ?wk = WBodyDone |- _ =>
      assert (L : worker_live wk = true) by (unfold worker_live; rewrite Hp; reflexivity);
      pose proof (count_pos_of worker_live _ _ _ Hn L) end.
    pose proof (i_wg _ _ _ I). lia.
  - (* LStopClose *)
    match goal with Hn : nth_error (sthreads s) _ = Some ?th, Hp : sp ?th = SStopClose |- _ =>
      destruct (stop_thread_facts caps _ _ _ _ I Hn) as (_ & _ & _ & _ & P); [rewrite Hp; exact Logic.I|];
      rewrite Hp in P end.
    destruct P as (_ & Ps & _). destruct (i_ghost _ _ _ I) as (_ & GB & _). rewrite Ps in GB. cbn in GB. congruence.
  - (* LStoppedClose *)
    match goal with Hn : nth_error (sthreads s) _ = Some ?th, Hp : sp ?th = SStopped |- _ =>
      destruct (stop_thread_facts caps _ _ _ _ I Hn) as (_ & _ & _ & _ & P); [rewrite Hp; exact Logic.I|];
      rewrite Hp in P end.
    destruct P as (_ & Ps & _). destruct (i_ghost _ _ _ I) as (_ & _ & GC & _). rewrite Ps in GC. cbn in GC. congruence.
Qed.

(** No lost wake-up: a goroutine sleeping in mu.quiesce.Wait() implies an
    outstanding task, whose runPostlude will Broadcast. *)
Theorem quiesce_waiter_has_task caps s j th :
  reachable caps s -> nth_error (sthreads s) j = Some th -> sp th = SQWait ->
  (0 < num_tasks s)%Z /\ exists i t, nth_error (tasks s) i = Some t /\ in_flight t = true.
Proof.
  intros R Ej Ep. pose proof (reachable_inv caps s R) as I.
  destruct (i_wait _ _ _ I j th Ej) as (W & _). specialize (W Ep). split; [exact W|].
  rewrite (i_num _ _ _ I) in W.
  assert (Hc : 1 <= count in_flight (tasks s)) by lia.
  clear - Hc. induction (tasks s) as [|t l IH]; [cbn in Hc; lia|].
  rewrite count_cons in Hc. destruct (in_flight t) eqn:E.
  - exists 0, t. split; [reflexivity | exact E].
  - cbn in Hc. destruct (IH Hc) as (i & t' & H1 & H2). exists (S i), t'. auto.
Qed.

(** [<-sem] of a holder never blocks. *)
Theorem release_never_blocks caps s i t k cap len :
  reachable caps s -> nth_error (tasks s) i = Some t -> holds_slot_of k t = true ->
  nth_error (sems s) k = Some (cap, len) ->
  exists sm', sem_dec s k = Some sm'.
Proof.
  intros R Et Hh Es. pose proof (reachable_inv caps s R) as I.
  unfold sem_dec. rewrite Es.
  destruct (i_sems _ _ _ I k cap len Es) as (El & _). pose proof (count_pos_of _ _ _ _ Et Hh).
  destruct len; [lia|]. eauto.
Qed.

(** The task count is exactly the number of calls between runPrelude and
    runPostlude; a call that was refused or returned an error is not among
    them, and the step by which a submission ends in an error (ErrUnavailable
    from a select or from runPrelude, ErrThrottled, context.Canceled before or
    after the slot was obtained) leaves the count as it was. *)
Theorem task_count_exact caps s :
  reachable caps s ->
  num_tasks s = Z.of_nat (count in_flight (tasks s)) /\
  forall i t, nth_error (tasks s) i = Some t -> refused t -> in_flight t = false /\ pc t = TRefused.
Proof.
  intros R. pose proof (reachable_inv caps s R) as I. split; [exact (i_num _ _ _ I)|].
  intros i t Et Hr. destruct (refused_pc _ _ (Forall_nth _ _ _ _ (i_tasks _ _ _ I) Et) Hr) as (Ep & _).
  split; [unfold in_flight; rewrite Ep; reflexivity | exact Ep].
Qed.

Theorem errored_submission_keeps_count s l s' i t t' :
  step s l = Next s' -> nth_error (tasks s) i = Some t -> pc t <> TRefused ->
  nth_error (tasks s') i = Some t' -> pc t' = TRefused ->
  num_tasks s' = num_tasks s.
Proof.
  intros E Et Np Et' Ep'. unfold step in E. destruct (step0 s l) as [s1| |] eqn:E0; try discriminate.
  inversion E; subst; clear E. cbn [num_tasks tick tasks] in *.
  destruct l; cbn [step0] in E0; unfold with_task, with_thread, end_body in E0;
    repeat match type of E0 with
           | context [match ?x with _ => _ end] => destruct x eqn:?; try discriminate
           end;
    inversion E0; subst; clear E0;
    try (unfold quiesce_test, quiesce_finish in *;
         repeat match goal with
                | |- context [if ?b then _ else _] => destruct b
                | H : context [if ?b then _ else _] |- _ => destruct b
                end);
    simp_st; try reflexivity.
  all: exfalso; apply nth_upd in Et'; destruct Et' as [[Hi Ht]|[Hn Et'']].
  all: try (subst; cbn in Ep'; discriminate).
  all: rewrite Et in Et''; inversion Et''; subst; congruence.
Qed.
