(** From wf_state and printable to the hypotheses of the replay lemmas (C10). *)
From Coq Require Import String Permutation.
From Shk Require Import Base.Prelude Model.Storyline Model.Config.
From Shk Require Import Proofs.ConfigText Proofs.ConfigRoles Proofs.ConfigCast Proofs.ConfigScript Proofs.ConfigExpr Proofs.ConfigMember Proofs.ConfigAudience.
Open Scope Z_scope.

Lemma forallb_impl {A} (f g : A -> bool) l :
  (forall x, In x l -> f x = true -> g x = true) -> forallb f l = true -> forallb g l = true.
Proof.
  induction l as [|x l IH]; cbn; [reflexivity|].
  intros H Hf. apply andb_prop in Hf as [H1 H2]. rewrite (H x (or_introl eq_refl) H1). apply IH; auto.
Qed.

Lemma forallb_In {A} (f : A -> bool) l x : forallb f l = true -> In x l -> f x = true.
Proof. intros H. rewrite forallb_forall in H. auto. Qed.

Lemma forallb_ext' {A} (f g : A -> bool) l : (forall x, f x = g x) -> forallb f l = forallb g l.
Proof. intros H. induction l; cbn; [reflexivity|]. rewrite H, IHl. reflexivity. Qed.

(** well-formedness of references only looks at the roles and the cast *)
Lemma dep_wf_ext s s' d : c_roles s = c_roles s' -> c_actors s = c_actors s' -> dep_wf s d = dep_wf s' d.
Proof. intros Hr Ha. unfold dep_wf, sigref_wf. rewrite Hr, Ha. reflexivity. Qed.

Lemma expr_wf_ext orc s s' e : c_roles s = c_roles s' -> c_actors s = c_actors s' -> expr_wf orc s e = expr_wf orc s' e.
Proof.
  intros Hr Ha. unfold expr_wf. destruct (o_expr_vars orc (x_src e)); [|reflexivity].
  f_equal. apply forallb_ext'. intros d. apply dep_wf_ext; auto.
Qed.

Lemma vars_of_canon l : vars_of (map canon_member l) = vars_of l.
Proof. unfold vars_of. induction l; cbn; [reflexivity|]. rewrite IHl. reflexivity. Qed.

Lemma assigns_fresh_nodup asg : forall defd rest,
  nodup_b (builtin_vars ++ defd ++ map as_var asg ++ rest) = true -> assigns_fresh defd asg = true.
Proof.
  induction asg as [|a asg IH]; intros defd rest H; [reflexivity|].
  cbn [assigns_fresh map app] in *.
  assert (Hm : mem_bytes (as_var a) (builtin_vars ++ defd) = false).
  { apply (nodup_b_mid (builtin_vars ++ defd) (as_var a) (map as_var asg ++ rest)).
    rewrite <- app_assoc. exact H. }
  unfold defined_in. rewrite mem_bytes_app in Hm. rewrite Hm. cbn [negb andb].
  apply (IH (defd ++ [as_var a]) rest). rewrite <- !app_assoc. exact H.
Qed.

Section Assemble.
Variable orc : oracles.
Hypothesis Horc : oracle_ok orc.

Variable s : cstate.
Hypothesis Hwf : wf_state orc s = true.
Hypothesis Hpr : printable s = true.

Notation ro := (c_roles s).
Notation ac := (c_actors s).

(* the components of the hypotheses *)
Lemma wf_parts :
  forallb (fun t => negb (is_nil t)) (c_authors s) = true
  /\ forallb (role_wf orc) ro = true /\ nodup_b (map r_name ro) = true
  /\ forallb (actor_wf s) ac = true /\ nodup_b (map a_name ac) = true
  /\ forallb (scene_wf s) (c_scenes s) = true /\ nodup_b (map (fun sc => [s_char sc]) (c_scenes s)) = true
  /\ repeat_wf orc s = true
  /\ forallb (member_wf orc s) (c_aud s) = true /\ nodup_b (map m_name (c_aud s)) = true
  /\ nodup_b (builtin_vars ++ vars_of (c_aud s)) = true.
Proof.
  unfold wf_state in Hwf.
  repeat (apply andb_prop in Hwf as [Hwf ?]). repeat split; assumption.
Qed.

Lemma pr_parts :
  forallb (fun t => inert t && negb (is_nil t)) (c_titles s ++ c_seealso s) = true
  /\ forallb (fun r => inert (r_name r)) ro = true
  /\ forallb (fun a => inert (a_env a)) ac = true
  /\ forallb (fun m => forallb (fun e => inert (x_src e)) (member_exprs m)) (c_aud s) = true
  /\ regexps_printable s = true /\ aud_ordered [] (c_aud s) = true /\ story_printable s = true.
Proof.
  unfold printable, texts_printable in Hpr.
  repeat (apply andb_prop in Hpr as [Hpr ?]). repeat split; assumption.
Qed.

Lemma roles_ok : forallb (role_ok orc) ro = true.
Proof.
  destruct wf_parts as (_ & Hr & _). destruct pr_parts as (_ & Hin & _ & _ & Hre & _).
  unfold regexps_printable in Hre. unfold role_ok.
  rewrite !forallb_and. rewrite Hr, Hin, Hre. reflexivity.
Qed.

Lemma role_name_props n :
  mem_bytes n (map r_name ro) = true -> ident_ok n = true /\ inert n = true.
Proof.
  intros H. apply mem_bytes_In in H. apply in_map_iff in H. destruct H as (r & <- & Hin).
  pose proof roles_ok as Hok. pose proof (forallb_In _ _ _ Hok Hin) as Hr.
  unfold role_ok, role_wf in Hr. repeat (apply andb_prop in Hr as [Hr ?]). auto.
Qed.

Lemma actors_ok : forallb (actor_ok ro) ac = true.
Proof.
  destruct wf_parts as (_ & _ & _ & Ha & _). destruct pr_parts as (_ & _ & Henv & _).
  rewrite forallb_forall in *. intros a Hin. specialize (Ha a Hin). specialize (Henv a Hin).
  unfold actor_wf in Ha. apply andb_prop in Ha as [Hid Hex]. rewrite (existsb_key r_name) in Hex.
  destruct (role_name_props _ Hex) as [H1 H2].
  unfold actor_ok. rewrite Hid, H1, H2, Henv, Hex. reflexivity.
Qed.

Lemma actor_name_ident n a : find_actor n ac = Some a -> ident_ok n = true.
Proof.
  intros H. apply find_some in H. destruct H as [Hin Hn]. apply bytes_eqb_eq in Hn. subst n.
  destruct wf_parts as (_ & _ & _ & Ha & _). pose proof (forallb_In _ _ _ Ha Hin) as Hw.
  unfold actor_wf in Hw. apply andb_prop in Hw as [Hw _]. exact Hw.
Qed.

Lemma scenes_ok : forallb (scene_ok ro ac) (c_scenes s) = true.
Proof.
  destruct wf_parts as (_ & _ & _ & _ & _ & Hs & _).
  eapply forallb_impl; [|exact Hs]. intros sc _ H. unfold scene_wf in H. unfold scene_ok.
  repeat (apply andb_prop in H as [H ?]).
  unfold alnum. rewrite H. cbn [andb].
  assert (He : forallb (entail_ok ro ac) (s_entails sc) = true).
  { eapply forallb_impl; [|eassumption]. intros e _ He. unfold entail_wf in He. unfold entail_ok.
    destruct (find_actor (e_actor e) ac) as [a|] eqn:Ea; [|discriminate].
    rewrite (actor_name_ident _ _ Ea). exact He. }
  rewrite He. cbn [andb]. repeat (apply andb_true_intro; split); assumption.
Qed.

End Assemble.
