(** Lemmas about Model/ParseSmall.v: the small parsers never index out of
    range, preprocessing is exactly leftmost single-pass substitution, and
    definitions obey the precedence rules. *)
From Shk Require Import Base.Prelude Model.ParseSmall.
Open Scope Z_scope.

(** * Slices *)

Lemma zlen_nonneg {A} (l : list A) : 0 <= zlen l.
Proof. unfold zlen; lia. Qed.

Lemma zlen_cons {A} (x : A) l : zlen (x :: l) = zlen l + 1.
Proof. unfold zlen; cbn [length]; lia. Qed.

Lemma zlen_app {A} (a b : list A) : zlen (a ++ b) = zlen a + zlen b.
Proof. unfold zlen; rewrite app_length; lia. Qed.

Lemma zlen_nil {A} : zlen (@nil A) = 0.
Proof. reflexivity. Qed.

Lemma zidx_some {A} (l : list A) i : 0 <= i < zlen l -> exists x, zidx l i = Some x.
Proof.
  intros H. unfold zidx. destruct (i <? 0) eqn:E; [lia|].
  destruct (nth_error l (Z.to_nat i)) eqn:N; [eauto|].
  apply nth_error_None in N. unfold zlen in H. lia.
Qed.

Lemma zidx_app_last {A} (l : list A) x : zidx (l ++ [x]) (zlen l) = Some x.
Proof.
  unfold zidx. pose proof (zlen_nonneg l). destruct (zlen l <? 0) eqn:E; [lia|].
  unfold zlen. rewrite Nat2Z.id. rewrite nth_error_app2 by lia. now rewrite Nat.sub_diag.
Qed.

Lemma zslice_some {A} (l : list A) a b : 0 <= a <= b -> b <= zlen l -> exists r, zslice l a b = Some r.
Proof.
  intros H1 H2. unfold zslice.
  destruct (0 <=? a) eqn:E1; [|lia]. destruct (a <=? b) eqn:E2; [|lia]. destruct (b <=? zlen l) eqn:E3; [|lia].
  cbn. eauto.
Qed.

Lemma zslice_none_inv {A} (l : list A) a b : zslice l a b = None -> ~ (0 <= a <= b /\ b <= zlen l).
Proof.
  intros H [H1 H2]. destruct (zslice_some l a b H1 H2) as [r Hr]. congruence.
Qed.

(** * Prefixes, suffixes *)

Lemma strip_prefix_app p s r : strip_prefix p s = Some r <-> s = p ++ r.
Proof.
  revert s; induction p as [|a p IH]; intros s; cbn.
  - split; [intros [= ->]; reflexivity | intros ->; reflexivity].
  - destruct s as [|b s]; [split; [discriminate | intros H; discriminate]|].
    destruct (Byte.eqb a b) eqn:E.
    + apply byte_eqb_eq in E. subst b. rewrite IH. split; [intros ->; reflexivity | intros [= ->]; reflexivity].
    + split; [discriminate|]. intros [= -> ->]. rewrite (proj2 (byte_eqb_eq a a) eq_refl) in E. discriminate.
Qed.

Lemma has_prefix_length s p : has_prefix s p = true -> (length p <= length s)%nat.
Proof.
  unfold has_prefix. destruct (strip_prefix p s) eqn:E; [|discriminate].
  apply strip_prefix_app in E. subst s. rewrite app_length. lia.
Qed.

Lemma has_suffix_length s p : has_suffix s p = true -> (length p <= length s)%nat.
Proof.
  unfold has_suffix. intros H. apply has_prefix_length in H. now rewrite !rev_length in H.
Qed.

Lemma has_suffix_app s p : has_suffix s p = true <-> exists q, s = q ++ p.
Proof.
  unfold has_suffix, has_prefix. destruct (strip_prefix (rev p) (rev s)) as [l|] eqn:E.
  - apply strip_prefix_app in E. split; [intros _|reflexivity].
    exists (rev l). apply (f_equal (@rev byte)) in E. rewrite rev_involutive, rev_app_distr, rev_involutive in E. exact E.
  - split; [discriminate|]. intros [q ->]. rewrite rev_app_distr in E.
    assert (strip_prefix (rev p) (rev p ++ rev q) = Some (rev q)) by (apply strip_prefix_app; reflexivity). congruence.
Qed.

Lemma span_spec f s a b : span f s = (a, b) ->
  s = a ++ b /\ forallb f a = true /\ match b with [] => True | c :: _ => f c = false end.
Proof.
  revert a b; induction s as [|c s IH]; intros a b; cbn.
  - intros [= <- <-]. auto.
  - destruct (f c) eqn:E.
    + destruct (span f s) as [a' b'] eqn:S. intros [= <- <-]. destruct (IH _ _ eq_refl) as (-> & F & T).
      cbn. rewrite E, F. auto.
    + intros [= <- <-]. cbn. rewrite E. auto.
Qed.

(** * edit *)

Theorem edit_no_panic : forall editcmd, edit_split editcmd <> EditPanic.
Proof.
  intros cmd. unfold edit_split.
  destruct cmd as [|c0 [|c1 [|c2 [|c3 tl]]]]; try (cbn; discriminate).
  assert (L : (zlen (c0 :: c1 :: c2 :: c3 :: tl) <? 4) = false).
  { rewrite !zlen_cons. pose proof (zlen_nonneg tl). lia. }
  rewrite L. cbn [zidx Z.ltb Z.compare Z.to_nat nth_error].
  destruct (negb (Byte.eqb c0 x_s)); [discriminate|].
  assert (S : zslice (c0 :: c1 :: c2 :: c3 :: tl) 1 2 = Some [c1]).
  { unfold zslice. rewrite !zlen_cons. pose proof (zlen_nonneg tl).
    replace (0 <=? 1) with true by reflexivity. replace (1 <=? 2) with true by reflexivity.
    destruct (2 <=? zlen tl + 1 + 1 + 1 + 1) eqn:E; [|lia]. reflexivity. }
  rewrite S.
  destruct (split_n c1 (c0 :: c1 :: c2 :: c3 :: tl) 3) as [|p0 [|p1 [|p2 [|p3 rest]]]] eqn:P;
    try (cbn; discriminate).
  assert (L4 : (zlen (p0 :: p1 :: p2 :: p3 :: rest) <? 4) = false).
  { rewrite !zlen_cons. pose proof (zlen_nonneg rest). lia. }
  rewrite L4. cbn [zidx Z.ltb Z.compare Z.to_nat].
  change (Pos.to_nat 3) with 3%nat; change (Pos.to_nat 2) with 2%nat; change (Pos.to_nat 1) with 1%nat.
  cbn [nth_error].
  destruct (negb (bytes_eqb p3 []) && negb (bytes_eqb p3 [x_g])); discriminate.
Qed.

(** The regression witness: before the fix `edit s/ab` indexed parts[2] of a
    two-element slice. *)
Example edit_before_fix_panicked :
  edit_split_before_fix [x73; x2f; x61; x62] = EditPanic /\ edit_split [x73; x2f; x61; x62] = EditInvalid.
Proof. split; vm_compute; reflexivity. Qed.

Lemma cut_at_spec c s a b : cut_at c s = Some (a, b) -> s = a ++ c :: b /\ ~ In c a.
Proof.
  revert a b; induction s as [|x s IH]; intros a b; cbn; [discriminate|].
  destruct (Byte.eqb x c) eqn:E.
  - intros [= <- <-]. apply byte_eqb_eq in E. subst. auto.
  - destruct (cut_at c s) as [[a' b']|] eqn:C; [|discriminate]. intros [= <- <-].
    destruct (IH _ _ eq_refl) as [-> NI]. split; [reflexivity|].
    intros [->|H]; [|auto]. rewrite (proj2 (byte_eqb_eq c c) eq_refl) in E. discriminate.
Qed.

Lemma cut_at_none c s : cut_at c s = None -> ~ In c s.
Proof.
  induction s as [|x s IH]; cbn; [auto|].
  destruct (Byte.eqb x c) eqn:E; [discriminate|].
  destruct (cut_at c s) as [[a b]|]; [discriminate|]. intros _ [->|H]; [|now apply IH].
  rewrite (proj2 (byte_eqb_eq c c) eq_refl) in E. discriminate.
Qed.


(** * Scene shorthands *)

Theorem shorthand_no_panic : forall s, validate_shorthand s <> ShPanic.
Proof.
  intros s. unfold validate_shorthand. destruct (zlen s =? 1) eqn:E; cbn [negb]; [|discriminate].
  apply Z.eqb_eq in E. destruct s as [|c [|d tl]].
  - discriminate.
  - cbn. destruct (latin1_letter_or_number c); discriminate.
  - rewrite !zlen_cons in E. pose proof (zlen_nonneg tl). lia.
Qed.

Example shorthand_len_gt_panics :
  validate_shorthand_len_gt [] = ShPanic /\ validate_shorthand [] = ShBadLength.
Proof. split; reflexivity. Qed.

(** * preprocReplace *)

Lemma x_tilde_not_word : is_word x_tilde = false.
Proof. reflexivity. Qed.

Lemma preproc_cb_some pv w : exists rep e, preproc_cb pv (x_tilde :: w ++ [x_tilde]) = Some (rep, e).
Proof.
  unfold preproc_cb.
  destruct (zslice (x_tilde :: w ++ [x_tilde]) 1 (zlen (x_tilde :: w ++ [x_tilde]) - 1)) as [vn|] eqn:E.
  - destruct (pv_lookup pv vn); eauto.
  - exfalso. apply zslice_none_inv in E. apply E.
    unfold zlen. cbn [length]. rewrite app_length. cbn [length]. lia.
Qed.

Lemma preproc_scan_some pv : forall fuel s, exists out e, preproc_scan fuel pv s = Some (out, e).
Proof.
  induction fuel as [|f IH]; intros s; cbn; [eauto|].
  destruct s as [|c tl]; [eauto|].
  destruct (match_here (c :: tl)) as [[w r]|].
  - destruct (preproc_cb_some pv w) as (rep & e1 & ->). destruct (IH r) as (out & e2 & ->). eauto.
  - destruct (IH tl) as (out & e & ->). eauto.
Qed.

Theorem preproc_no_panic : forall pv s, preproc pv s <> PpPanic.
Proof.
  intros pv s. unfold preproc. destruct (preproc_scan_some pv (length s) s) as (out & e & ->).
  destruct e; discriminate.
Qed.

(** ** Exactness: the declarative reading of "replace ~name~" *)

(** An occurrence [~w~] stands at the head of [s], followed by [r]. *)
Definition occ_here (s w r : bs) : Prop :=
  s = x_tilde :: w ++ x_tilde :: r /\ w <> [] /\ forallb is_word w = true.

Definition pp_subst (pv : pvars) (w : bs) : bs :=
  match pv_lookup pv w with Some v => v | None => x_tilde :: w ++ [x_tilde] end.
Definition pp_undef (pv : pvars) (w : bs) : list bs :=
  match pv_lookup pv w with Some _ => [] | None => [x_tilde :: w ++ [x_tilde]] end.

(** [Expand pv s out u]: scanning [s] from the left, every occurrence that
    starts where the scan stands is replaced by the parameter's value when it
    is defined (and recorded in [u], left as it is, when not) and the scan
    resumes after it — the value is not rescanned; any other byte is copied. *)
Inductive Expand (pv : pvars) : bs -> bs -> list bs -> Prop :=
| Ex_nil : Expand pv [] [] []
| Ex_occ w r out u :
    w <> [] -> forallb is_word w = true -> Expand pv r out u ->
    Expand pv (x_tilde :: w ++ x_tilde :: r) (pp_subst pv w ++ out) (pp_undef pv w ++ u)
| Ex_lit c r out u :
    (forall w r', ~ occ_here (c :: r) w r') -> Expand pv r out u ->
    Expand pv (c :: r) (c :: out) u.

Lemma word_split_unique w r w' r' :
  forallb is_word w = true -> forallb is_word w' = true ->
  w ++ x_tilde :: r = w' ++ x_tilde :: r' -> w = w' /\ r = r'.
Proof.
  revert w'; induction w as [|a w IH]; intros [|a' w'] Hw Hw' E; cbn in *.
  - injection E as <-. auto.
  - injection E as <- _. apply andb_true_iff in Hw' as [Hw' _]. rewrite x_tilde_not_word in Hw'. discriminate.
  - injection E as -> _. apply andb_true_iff in Hw as [Hw _]. rewrite x_tilde_not_word in Hw. discriminate.
  - injection E as <- E. apply andb_true_iff in Hw as [_ Hw]. apply andb_true_iff in Hw' as [_ Hw'].
    destruct (IH _ Hw Hw' E) as [-> ->]. auto.
Qed.

Lemma match_here_spec s :
  match match_here s with
  | Some (w, r) => occ_here s w r
  | None => forall w r, ~ occ_here s w r
  end.
Proof.
  unfold match_here. destruct s as [|c tl].
  - intros w r (E & _). discriminate.
  - destruct (Byte.eqb c x_tilde) eqn:Ec.
    + apply byte_eqb_eq in Ec. subst c.
      destruct (span is_word tl) as [w r] eqn:Sp. destruct (span_spec _ _ _ _ Sp) as (-> & Fw & Hd).
      destruct w as [|a w].
      * intros w' r' (E & Hne & Hw'). injection E as E. cbn in E.
        destruct w' as [|a' w']; [congruence|]. cbn in E. subst r. cbn in Hw'.
        apply andb_true_iff in Hw' as [Ha _]. congruence.
      * destruct r as [|c2 r'].
        -- intros w' r' (E & Hne & Hw'). injection E as E.
           assert (In x_tilde ((a :: w) ++ [])) as Hin.
           { change ((a :: w) ++ []) with (a :: w ++ []). rewrite E. apply in_or_app. right. left. reflexivity. }
           rewrite app_nil_r in Hin. rewrite forallb_forall in Fw. apply Fw in Hin.
           rewrite x_tilde_not_word in Hin. discriminate.
        -- destruct (Byte.eqb c2 x_tilde) eqn:E2.
           ++ apply byte_eqb_eq in E2. subst c2. split; [reflexivity|]. split; [discriminate|exact Fw].
           ++ intros w' r'' (E & Hne & Hw'). injection E as E.
              (* (a::w) ++ c2 :: r' = w' ++ ~ :: r'' with c2 not word and not ~ *)
              assert (forall (u v : bs) x y p q, forallb is_word u = true -> forallb is_word v = true ->
                        is_word x = false -> is_word y = false -> u ++ x :: p = v ++ y :: q -> x = y) as K.
              { clear. induction u as [|a u IH]; intros [|b v] x y p q Hu Hv Hx Hy E; cbn in *.
                - congruence.
                - injection E as -> _. apply andb_true_iff in Hv as [Hv _]. congruence.
                - injection E as -> _. apply andb_true_iff in Hu as [Hu _]. congruence.
                - injection E as _ E. apply andb_true_iff in Hu as [_ Hu]. apply andb_true_iff in Hv as [_ Hv]. eauto. }
              specialize (K _ _ _ _ _ _ Fw Hw' Hd x_tilde_not_word E). subst c2.
              rewrite (proj2 (byte_eqb_eq x_tilde x_tilde) eq_refl) in E2. discriminate.
    + intros w r (E & _). injection E as -> _. rewrite (proj2 (byte_eqb_eq x_tilde x_tilde) eq_refl) in Ec. discriminate.
Qed.

Lemma preproc_cb_spec pv w :
  preproc_cb pv (x_tilde :: w ++ [x_tilde]) = Some (pp_subst pv w, pp_undef pv w).
Proof.
  unfold preproc_cb, pp_subst, pp_undef.
  assert (zslice (x_tilde :: w ++ [x_tilde]) 1 (zlen (x_tilde :: w ++ [x_tilde]) - 1) = Some w) as ->.
  { unfold zslice. rewrite zlen_cons, zlen_app, zlen_cons. change (zlen (@nil byte)) with 0. pose proof (zlen_nonneg w).
    destruct (0 <=? 1) eqn:A; [|lia]. destruct (1 <=? zlen w + (0 + 1) + 1 - 1) eqn:B; [|lia].
    destruct (zlen w + (0 + 1) + 1 - 1 <=? zlen w + (0 + 1) + 1) eqn:C; [|lia]. cbn [andb].
    replace (Z.to_nat 1) with 1%nat by reflexivity. cbn [skipn].
    replace (zlen w + (0 + 1) + 1 - 1 - 1) with (zlen w) by lia. unfold zlen. rewrite Nat2Z.id.
    rewrite firstn_app, Nat.sub_diag, firstn_all. cbn. now rewrite app_nil_r. }
  destruct (pv_lookup pv w); reflexivity.
Qed.

Lemma preproc_scan_expand pv : forall fuel s, (length s <= fuel)%nat ->
  exists out u, preproc_scan fuel pv s = Some (out, u) /\ Expand pv s out u.
Proof.
  induction fuel as [|f IH]; intros s Hl.
  - destruct s; [|cbn in Hl; lia]. cbn. eexists _, _; split; [reflexivity|constructor].
  - destruct s as [|c tl]; [cbn; eexists _, _; split; [reflexivity|constructor]|].
    cbn [preproc_scan]. pose proof (match_here_spec (c :: tl)) as M.
    destruct (match_here (c :: tl)) as [[w r]|].
    + destruct M as (E & Hne & Hw). rewrite preproc_cb_spec.
      assert (length r <= f)%nat as Hr.
      { apply (f_equal (@length byte)) in E. cbn in E. rewrite app_length in E. cbn in E, Hl. lia. }
      destruct (IH r Hr) as (out & u & -> & X).
      eexists _, _; split; [reflexivity|]. rewrite E. now constructor.
    + cbn in Hl. destruct (IH tl ltac:(lia)) as (out & u & -> & X).
      eexists _, _; split; [reflexivity|]. now constructor.
Qed.

Lemma Expand_functional pv s : forall o1 u1 o2 u2, Expand pv s o1 u1 -> Expand pv s o2 u2 -> o1 = o2 /\ u1 = u2.
Proof.
  intros o1 u1 o2 u2 H1. revert o2 u2. induction H1 as [|w r out u Hne Hw X IH|c r out u Hno X IH]; intros o2 u2 H2.
  - inversion H2; auto.
  - inversion H2 as [|w' r' out' u' Hne' Hw' X' E|c' r' out' u' Hno' X' E]; subst.
    + destruct (word_split_unique _ _ _ _ Hw Hw' (eq_sym E)) as [-> ->].
      destruct (IH _ _ X') as [-> ->]. auto.
    + exfalso. apply (Hno' w r). split; [reflexivity|auto].
  - inversion H2 as [|w' r' out' u' Hne' Hw' X' E|c' r' out' u' Hno' X' E]; subst.
    + exfalso. apply (Hno w' r'). split; [reflexivity|auto].
    + destruct (IH _ _ X') as [-> ->]. auto.
Qed.

(** preprocReplace = Expand: Ok with the expansion when every occurrence names
    a defined parameter, otherwise an error naming each undefined one. *)
Theorem preproc_exact : forall pv s,
  exists out u, Expand pv s out u /\
    (forall out' u', Expand pv s out' u' -> out' = out /\ u' = u) /\
    preproc pv s = match u with [] => PpOk out | _ => PpUndefined u end.
Proof.
  intros pv s. destruct (preproc_scan_expand pv (length s) s (le_n _)) as (out & u & E & X).
  exists out, u. split; [exact X|]. split.
  - intros out' u' X'. destruct (Expand_functional _ _ _ _ _ _ X' X); auto.
  - unfold preproc. rewrite E. destruct u; reflexivity.
Qed.

(** Consequences spelled out. *)
Lemma Expand_no_tilde pv s : ~ In x_tilde s -> Expand pv s s [].
Proof.
  induction s as [|c s IH]; intros H; [constructor|].
  apply Ex_lit.
  - intros w r (E & _). injection E as -> _. apply H. now left.
  - apply IH. intros X. apply H. now right.
Qed.

Lemma pv_lookup_in pv w v : pv_lookup pv w = Some v -> In (w, v) pv.
Proof.
  induction pv as [|[k x] pv IH]; cbn; [discriminate|].
  destruct (bytes_eqb k w) eqn:E.
  - apply bytes_eqb_eq in E. subst. intros [= ->]. now left.
  - intros H. right. auto.
Qed.

(** Undefined names are reported exactly when they occur, in order. *)
Lemma Expand_undef_sound pv s out u : Expand pv s out u ->
  forall m, In m u -> exists w, m = x_tilde :: w ++ [x_tilde] /\ pv_lookup pv w = None.
Proof.
  induction 1 as [|w r out u Hne Hw X IH|c r out u Hno X IH]; intros m Hin.
  - destruct Hin.
  - apply in_app_or in Hin as [Hin|Hin]; [|auto].
    unfold pp_undef in Hin. destruct (pv_lookup pv w) eqn:L; [destruct Hin|].
    destruct Hin as [<-|[]]. eauto.
  - auto.
Qed.

(** * Definitions: -D first, first definition wins, `parameter` only when absent *)

(** name=value, split at the first '=' (no '=': the value is empty). *)
Fixpoint split_def_spec (d : bs) : bs * bs :=
  match d with
  | [] => ([], [])
  | c :: tl => if Byte.eqb c x_eq then ([], tl) else let '(n, v) := split_def_spec tl in (c :: n, v)
  end.

Lemma define_split_ok d : define_split d = Ok (split_def_spec d).
Proof.
  unfold define_split. destruct (cut_at x_eq d) as [[a b]|] eqn:C.
  - destruct (cut_at_spec _ _ _ _ C) as [-> NI].
    assert (split_def_spec (a ++ x_eq :: b) = (a, b)) as ->.
    { clear C. induction a as [|x a IH]; cbn.
      - reflexivity.
      - destruct (Byte.eqb x x_eq) eqn:E.
        + apply byte_eqb_eq in E. subst. exfalso. apply NI. now left.
        + rewrite IH; [reflexivity|]. intros H. apply NI. now right. }
    unfold zslice. rewrite zlen_app, zlen_cons. pose proof (zlen_nonneg a). pose proof (zlen_nonneg b).
    destruct (0 <=? 0) eqn:A1; [|lia]. destruct (0 <=? zlen a) eqn:A2; [|lia].
    destruct (zlen a <=? zlen a + (zlen b + 1)) eqn:A3; [|lia]. cbn [andb].
    destruct (0 <=? zlen a + 1) eqn:A4; [|lia]. destruct (zlen a + 1 <=? zlen a + (zlen b + 1)) eqn:A5; [|lia].
    destruct (zlen a + (zlen b + 1) <=? zlen a + (zlen b + 1)) eqn:A6; [|lia]. cbn [andb].
    replace (zlen a - 0) with (zlen a) by lia. replace (Z.to_nat 0) with 0%nat by reflexivity. cbn [skipn].
    unfold zlen at 1. rewrite Nat2Z.id. rewrite firstn_app, Nat.sub_diag, firstn_all. cbn [firstn]. rewrite app_nil_r.
    replace (zlen a + (zlen b + 1) - (zlen a + 1)) with (zlen b) by lia.
    replace (Z.to_nat (zlen a + 1)) with (length a + 1)%nat by (unfold zlen; lia).
    rewrite skipn_app. rewrite skipn_all2 by lia. replace (length a + 1 - length a)%nat with 1%nat by lia.
    cbn [skipn app]. unfold zlen. rewrite Nat2Z.id, firstn_all. reflexivity.
  - apply cut_at_none in C.
    assert (split_def_spec d = (d, [])) as ->; [|reflexivity].
    induction d as [|x d IH]; cbn; [reflexivity|].
    destruct (Byte.eqb x x_eq) eqn:E.
    + apply byte_eqb_eq in E. subst. exfalso. apply C. now left.
    + rewrite IH; [reflexivity|]. intros H. apply C. now right.
Qed.

Theorem parse_defines_no_panic : forall defs, exists pv, parse_defines defs = Ok pv.
Proof.
  intros defs. unfold parse_defines. generalize (@nil (bs * bs)).
  induction defs as [|d tl IH]; intros pv; cbn; [eauto|].
  rewrite define_split_ok. destruct (split_def_spec d). apply IH.
Qed.

Fixpoint first_of (n : bs) (l : list (bs * bs)) : option bs :=
  match l with
  | [] => None
  | (k, v) :: tl => if bytes_eqb k n then Some v else first_of n tl
  end.

Lemma pv_lookup_app pv pv' n :
  pv_lookup (pv ++ pv') n = match pv_lookup pv n with Some v => Some v | None => pv_lookup pv' n end.
Proof.
  induction pv as [|[k v] pv IH]; cbn; [reflexivity|]. destruct (bytes_eqb k n); auto.
Qed.

Lemma pv_lookup_define pv k v n :
  pv_lookup (pv_define pv k v) n =
  match pv_lookup pv n with Some x => Some x | None => if bytes_eqb k n then Some v else None end.
Proof.
  unfold pv_define. destruct (pv_lookup pv k) eqn:Lk.
  - destruct (pv_lookup pv n) eqn:Ln; [reflexivity|].
    destruct (bytes_eqb k n) eqn:E; [|reflexivity]. apply bytes_eqb_eq in E. subst. congruence.
  - rewrite pv_lookup_app. cbn. destruct (pv_lookup pv n); [reflexivity|]. destruct (bytes_eqb k n); reflexivity.
Qed.

Definition define_all (pv : pvars) (l : list (bs * bs)) : pvars :=
  fold_left (fun pv p => pv_define pv (fst p) (snd p)) l pv.

Lemma pv_lookup_define_all l : forall pv n,
  pv_lookup (define_all pv l) n = match pv_lookup pv n with Some x => Some x | None => first_of n l end.
Proof.
  induction l as [|[k v] l IH]; intros pv n; cbn.
  - destruct (pv_lookup pv n); reflexivity.
  - unfold define_all in IH. rewrite IH. cbn [fst snd]. rewrite pv_lookup_define.
    destruct (pv_lookup pv n); [reflexivity|]. destruct (bytes_eqb k n); reflexivity.
Qed.

Lemma parse_defines_from_eq defs : forall pv,
  parse_defines_from pv defs = Ok (define_all pv (map split_def_spec defs)).
Proof.
  induction defs as [|d tl IH]; intros pv; cbn; [reflexivity|].
  rewrite define_split_ok. destruct (split_def_spec d) as [n v] eqn:E. rewrite IH. reflexivity.
Qed.

(** The value a parameter ends up with: that of the first -D naming it; failing
    that, that of the first `parameter` clause naming it; else undefined. *)
Theorem define_precedence : forall defs params n,
  exists pv0, parse_defines defs = Ok pv0 /\
    pv_lookup (define_all pv0 params) n =
      match first_of n (map split_def_spec defs) with
      | Some v => Some v
      | None => first_of n params
      end.
Proof.
  intros defs params n. unfold parse_defines. rewrite parse_defines_from_eq.
  eexists; split; [reflexivity|]. rewrite !pv_lookup_define_all. reflexivity.
Qed.

(** Corollaries of [preproc_exact] in the shapes the property speaks of. *)
Theorem preproc_undefined_named : forall pv s names,
  preproc pv s = PpUndefined names ->
  names <> [] /\ forall m, In m names -> exists w, m = x_tilde :: w ++ [x_tilde] /\ pv_lookup pv w = None.
Proof.
  intros pv s names E. destruct (preproc_exact pv s) as (out & u & X & _ & Ep). rewrite E in Ep.
  destruct u as [|a u]; [discriminate|]. injection Ep as ->. split; [discriminate|].
  eapply Expand_undef_sound; eauto.
Qed.

Theorem preproc_untouched_without_tilde : forall pv s, ~ In x_tilde s -> preproc pv s = PpOk s.
Proof.
  intros pv s H. destruct (preproc_exact pv s) as (out & u & X & Hu & Ep).
  destruct (Hu _ _ (Expand_no_tilde pv s H)) as [E1 E2]. rewrite Ep. subst out u. reflexivity.
Qed.

(** ** Single pass: the expansion is bounded, whatever the values refer to *)

Fixpoint max_val_len (pv : pvars) : nat :=
  match pv with
  | [] => 0
  | (_, v) :: tl => Nat.max (length v) (max_val_len tl)
  end.

Lemma pv_lookup_len pv w v : pv_lookup pv w = Some v -> (length v <= max_val_len pv)%nat.
Proof.
  induction pv as [|[k x] pv IH]; cbn; [discriminate|].
  destruct (bytes_eqb k w); [intros [= ->]; lia|]. intros H. specialize (IH H). lia.
Qed.

Lemma Expand_length pv s out u : Expand pv s out u ->
  (length out <= length s * S (max_val_len pv))%nat.
Proof.
  induction 1 as [|w r out u Hne Hw X IH|c r out u Hno X IH].
  - cbn. lia.
  - assert (length (pp_subst pv w) <= (length w + 2) * S (max_val_len pv))%nat as Hs.
    { unfold pp_subst. destruct (pv_lookup pv w) as [v|] eqn:L.
      - apply pv_lookup_len in L. nia.
      - cbn. rewrite app_length. cbn. nia. }
    rewrite app_length. cbn [length]. rewrite app_length. cbn [length]. nia.
  - cbn [length]. nia.
Qed.

(** preprocReplace always returns (it is one left-to-right pass: a value is
    never scanned again, so values that mention themselves or each other
    cannot make it run on), and what it returns is no longer than
    |text| * (1 + longest value). *)
Theorem preproc_single_pass_bounded : forall pv s,
  match preproc pv s with
  | PpOk out => Expand pv s out [] /\ (length out <= length s * S (max_val_len pv))%nat
  | PpUndefined names => names <> []
  | PpPanic => False
  end.
Proof.
  intros pv s. destruct (preproc_exact pv s) as (out & u & X & _ & ->).
  destruct u; [split; [exact X|eapply Expand_length; eauto]|discriminate].
Qed.

Corollary preproc_terminates_bounded : forall pv s,
  match preproc pv s with
  | PpOk out => (length out <= length s * S (max_val_len pv))%nat
  | PpUndefined names => names <> []
  | PpPanic => False
  end.
Proof.
  intros pv s. pose proof (preproc_single_pass_bounded pv s) as H.
  destruct (preproc pv s); [exact (proj2 H)|exact H|exact H].
Qed.
