(** Proofs about the first part of Model/Dirs.v (fields, paths); shared by
    C12 and C13. *)
From Shk Require Import Base.Prelude Model.Dirs.
From Coq Require Import Strings.String.

Lemma byte_eqb_refl c : Byte.eqb c c = true.
Proof. apply byte_eqb_eq; reflexivity. Qed.

Lemma byte_eqb_neq a b : a <> b -> Byte.eqb a b = false.
Proof. intros H; destruct (Byte.eqb a b) eqn:E; auto. apply byte_eqb_eq in E; contradiction. Qed.

Lemma bytes_eqb_refl a : bytes_eqb a a = true.
Proof. apply bytes_eqb_eq; reflexivity. Qed.

Lemma bytes_eqb_neq a b : a <> b -> bytes_eqb a b = false.
Proof. intros H; destruct (bytes_eqb a b) eqn:E; auto. apply bytes_eqb_eq in E; contradiction. Qed.

(** * fields *)
Lemma fields_aux_word sep w : forall cur rest,
  forallb (fun c => negb (sep c)) w = true ->
  fields_aux sep cur (w ++ rest) = fields_aux sep (rev w ++ cur) rest.
Proof.
  induction w as [|c w IH]; cbn; intros cur rest H; [reflexivity|].
  apply andb_true_iff in H as [H1 H2]. apply negb_true_iff in H1. rewrite H1.
  rewrite IH by exact H2. rewrite <- app_assoc; reflexivity.
Qed.

Lemma fields_aux_end sep w :
  w <> [] -> forallb (fun c => negb (sep c)) w = true -> fields_aux sep [] w = [w].
Proof.
  intros Hne H. rewrite <- (app_nil_r w) at 1. rewrite fields_aux_word by exact H.
  rewrite app_nil_r. cbn. destruct (rev w) eqn:E.
  - apply (f_equal (@rev byte)) in E. rewrite rev_involutive in E; cbn in E; contradiction.
  - rewrite <- E, rev_involutive; reflexivity.
Qed.

Lemma fields_aux_sep sep w c rest :
  w <> [] -> forallb (fun c => negb (sep c)) w = true -> sep c = true ->
  fields_aux sep [] (w ++ c :: rest) = w :: fields_aux sep [] rest.
Proof.
  intros Hne H Hc. rewrite fields_aux_word by exact H. rewrite app_nil_r. cbn. rewrite Hc.
  destruct (rev w) eqn:E.
  - apply (f_equal (@rev byte)) in E. rewrite rev_involutive in E; cbn in E; contradiction.
  - rewrite <- E, rev_involutive; reflexivity.
Qed.

Lemma fields_aux_skip sep c rest : sep c = true -> fields_aux sep [] (c :: rest) = fields_aux sep [] rest.
Proof. intros H; cbn; rewrite H; reflexivity. Qed.


Lemma fields_aux_split sep c b : sep c = true -> forall a cur,
  fields_aux sep cur (a ++ c :: b) = fields_aux sep cur a ++ fields_aux sep [] b.
Proof.
  intros Hc. induction a as [|d a IH]; intros cur.
  - cbn. rewrite Hc. destruct cur; reflexivity.
  - cbn. destruct (sep d).
    + destruct cur; rewrite IH; reflexivity.
    + apply IH.
Qed.

Lemma fields_split sep c a b : sep c = true -> fields sep (a ++ c :: b) = fields sep a ++ fields sep b.
Proof. intros H; apply fields_aux_split; exact H. Qed.

Lemma fields_one sep w : w <> [] -> forallb (fun c => negb (sep c)) w = true -> fields sep w = [w].
Proof. apply fields_aux_end. Qed.

(** * clean *)
Definition regular (c : bytes) : bool := negb (bytes_eqb c dot) && negb (bytes_eqb c dotdot).

(** The stack [clean_aux] has built after reading [cs]. *)
Fixpoint clean_stack (abs : bool) (st : list bytes) (cs : list bytes) : list bytes :=
  match cs with
  | [] => st
  | c :: tl =>
      if bytes_eqb c dot then clean_stack abs st tl
      else if bytes_eqb c dotdot then
        match st with
        | [] => if abs then clean_stack abs [] tl else clean_stack abs [dotdot] tl
        | t :: st' => if bytes_eqb t dotdot then clean_stack abs (dotdot :: st) tl else clean_stack abs st' tl
        end
      else clean_stack abs (c :: st) tl
  end.

Lemma clean_aux_stack abs cs : forall st, clean_aux abs st cs = rev (clean_stack abs st cs).
Proof.
  induction cs as [|c cs IH]; intros st; cbn; [reflexivity|].
  destruct (bytes_eqb c dot); [apply IH|].
  destruct (bytes_eqb c dotdot); [|apply IH].
  destruct st as [|t st']; [destruct abs; apply IH|].
  destruct (bytes_eqb t dotdot); apply IH.
Qed.

Lemma clean_stack_app abs a : forall st b, clean_stack abs st (a ++ b) = clean_stack abs (clean_stack abs st a) b.
Proof.
  induction a as [|c a IH]; intros st b; cbn; [reflexivity|].
  destruct (bytes_eqb c dot); [apply IH|].
  destruct (bytes_eqb c dotdot); [|apply IH].
  destruct st as [|t st']; [destruct abs; apply IH|].
  destruct (bytes_eqb t dotdot); apply IH.
Qed.

Lemma clean_stack_regular abs cs : forall st, forallb regular cs = true -> clean_stack abs st cs = rev cs ++ st.
Proof.
  induction cs as [|c cs IH]; intros st H; [reflexivity|].
  cbn [forallb] in H. apply andb_true_iff in H as [H1 H2]. unfold regular in H1.
  apply andb_true_iff in H1 as [A B]. apply negb_true_iff in A, B.
  cbn [clean_stack rev]. rewrite A, B.
  rewrite IH by exact H2. rewrite <- app_assoc. reflexivity.
Qed.

(** Going down into a regular component and up again is cleaned away. *)
Lemma clean_stack_down_up abs st c : regular c = true -> clean_stack abs st [c; dotdot] = st.
Proof.
  unfold regular. intros H. apply andb_true_iff in H as [A B]. apply negb_true_iff in A, B.
  cbn [clean_stack]. rewrite A, B. cbn [clean_stack].
  change (bytes_eqb dotdot dot) with false. change (bytes_eqb dotdot dotdot) with true.
  cbv beta iota. try rewrite B. reflexivity.
Qed.

Lemma clean_regular p : forallb regular (p_comps p) = true -> clean p = p.
Proof.
  intros H. destruct p as [a cs]. unfold clean; cbn in *. f_equal.
  rewrite clean_aux_stack, clean_stack_regular by exact H. rewrite app_nil_r, rev_involutive. reflexivity.
Qed.

Lemma prefix_comps_app a b : prefix_comps a (a ++ b) = true.
Proof. induction a as [|x a IH]; cbn; [reflexivity|]. rewrite bytes_eqb_refl; exact IH. Qed.

(** * More on clean *)
Lemma clean_stack_abs_regular cs : forall st,
  forallb regular st = true -> forallb regular (clean_stack true st cs) = true.
Proof.
  induction cs as [|c cs IH]; intros st H; cbn [clean_stack]; [exact H|].
  destruct (bytes_eqb c dot) eqn:A; [apply IH; exact H|].
  destruct (bytes_eqb c dotdot) eqn:B.
  - destruct st as [|t st']; [apply IH; reflexivity|].
    cbn [forallb] in H. apply andb_true_iff in H as [Ht Hs].
    assert (T : bytes_eqb t dotdot = false).
    { unfold regular in Ht. apply andb_true_iff in Ht as [_ X]. apply negb_true_iff in X; exact X. }
    rewrite T. apply IH; exact Hs.
  - apply IH. cbn [forallb]. rewrite H. unfold regular. rewrite A, B. reflexivity.
Qed.

Lemma forallb_rev {A} (f : A -> bool) l : forallb f (rev l) = forallb f l.
Proof.
  induction l as [|x l IH]; [reflexivity|]. cbn. rewrite forallb_app, IH. cbn.
  rewrite andb_true_r. apply andb_comm.
Qed.

Lemma clean_abs_regular p : p_abs p = true -> forallb regular (p_comps (clean p)) = true.
Proof.
  intros H. unfold clean; cbn. rewrite H, clean_aux_stack, forallb_rev.
  apply clean_stack_abs_regular. reflexivity.
Qed.

Lemma clean_idem_abs p : p_abs p = true -> clean (clean p) = clean p.
Proof. intros H. apply clean_regular. apply clean_abs_regular; exact H. Qed.

(** Joining one regular component to a path whose clean form is known. *)
Lemma clean_snoc abs cs c : regular c = true ->
  clean_aux abs [] (cs ++ [c]) = clean_aux abs [] cs ++ [c].
Proof.
  intros H. rewrite !clean_aux_stack, clean_stack_app.
  unfold regular in H. apply andb_true_iff in H as [A B]. apply negb_true_iff in A, B.
  cbn [clean_stack]. rewrite A, B. reflexivity.
Qed.

Lemma join1_comps a c : regular c = true ->
  join1 a c = {| p_abs := p_abs a; p_comps := p_comps (clean a) ++ [c] |}.
Proof. intros H. unfold join1, join, clean; cbn [p_abs p_comps]. rewrite clean_snoc by exact H. reflexivity. Qed.

Lemma removelast_snoc {A} (l : list A) x : removelast (l ++ [x]) = l.
Proof. apply removelast_last. Qed.

(** * C12: the `latest` link *)
Definition cwd_ok (cwd : path) : Prop := p_abs cwd = true /\ forallb regular (p_comps cwd) = true.

Lemma clean_app_regular abs a b : forallb regular a = true ->
  clean_aux abs [] (a ++ b) = clean_aux abs (rev a) b.
Proof.
  intros H. rewrite !clean_aux_stack, clean_stack_app. rewrite (clean_stack_regular abs a) by exact H.
  rewrite app_nil_r. reflexivity.
Qed.

Lemma clean_all_regular abs a : forallb regular a = true -> clean_aux abs [] a = a.
Proof.
  intros H. rewrite clean_aux_stack, clean_stack_regular by exact H. rewrite app_nil_r, rev_involutive. reflexivity.
Qed.

(** ** clean is idempotent *)

(** Shape of the stack [clean_stack] builds (top first): regular components
    above the ".." a relative path starts with (none for an absolute one). *)
Definition stack_ok (abs : bool) (st : list bytes) : Prop :=
  exists r k, st = r ++ repeat dotdot k /\ forallb regular r = true /\ (abs = true -> k = 0%nat).

Lemma regular_not_dotdot t : regular t = true -> bytes_eqb t dotdot = false.
Proof. unfold regular. intros H. apply andb_true_iff in H as [_ X]. apply negb_true_iff in X; exact X. Qed.

Lemma clean_stack_ok abs cs : forall st, stack_ok abs st -> stack_ok abs (clean_stack abs st cs).
Proof.
  induction cs as [|c cs IH]; intros st H; cbn [clean_stack]; [exact H|].
  destruct (bytes_eqb c dot) eqn:A; [apply IH; exact H|].
  destruct (bytes_eqb c dotdot) eqn:B.
  - destruct st as [|t st'].
    + destruct abs; apply IH.
      * exists [], 0%nat. repeat split; auto.
      * exists [], 1%nat. repeat split; auto. discriminate.
    + destruct H as (r & k & E & Hr & Hk).
      destruct (bytes_eqb t dotdot) eqn:T; apply IH.
      * (* the top is "..": there is no regular component *)
        destruct r as [|x r'].
        -- cbn in E. exists [], (S k). split; [cbn; rewrite E; reflexivity|]. split; [reflexivity|].
           intros Ha. specialize (Hk Ha). subst k. destruct st'; discriminate E.
        -- cbn in E. inversion E; subst x. cbn in Hr. apply andb_true_iff in Hr as [Hx _].
           rewrite (regular_not_dotdot _ Hx) in T. discriminate.
      * destruct r as [|x r'].
        -- cbn in E. destruct k; [discriminate|]. cbn in E. inversion E; subst t.
           change (bytes_eqb dotdot dotdot) with true in T. discriminate.
        -- cbn in E. inversion E; subst. cbn in Hr. apply andb_true_iff in Hr as [_ Hr].
           exists r', k. auto.
  - apply IH. destruct H as (r & k & E & Hr & Hk). exists (c :: r), k. subst st.
    split; [reflexivity|]. split; [|exact Hk]. cbn. rewrite Hr. unfold regular. rewrite A, B. reflexivity.
Qed.

Lemma clean_stack_dotdots k : forall j,
  clean_stack false (repeat dotdot j) (repeat dotdot k) = repeat dotdot (k + j).
Proof.
  induction k as [|k IH]; intros j; [reflexivity|].
  cbn [repeat clean_stack]. change (bytes_eqb dotdot dot) with false. change (bytes_eqb dotdot dotdot) with true.
  cbv beta iota. destruct j as [|j].
  - cbn [repeat]. change [dotdot] with (repeat dotdot 1). rewrite (IH 1%nat). f_equal. lia.
  - cbn [repeat]. change (bytes_eqb dotdot dotdot) with true. cbv beta iota.
    change (dotdot :: dotdot :: repeat dotdot j) with (repeat dotdot (S (S j))).
    rewrite (IH (S (S j))). f_equal. lia.
Qed.

Lemma rev_repeat {A} (x : A) k : rev (repeat x k) = repeat x k.
Proof.
  induction k as [|k IH]; [reflexivity|]. cbn. rewrite IH.
  clear IH. induction k as [|k IH]; [reflexivity|]. cbn. rewrite IH. reflexivity.
Qed.

Lemma clean_stack_rev_ok abs st : stack_ok abs st -> clean_stack abs [] (rev st) = st.
Proof.
  intros (r & k & -> & Hr & Hk). rewrite rev_app_distr, rev_repeat, clean_stack_app.
  assert (E : clean_stack abs [] (repeat dotdot k) = repeat dotdot k).
  { destruct abs; [rewrite (Hk eq_refl); reflexivity|].
    change (@nil bytes) with (repeat dotdot 0). rewrite (clean_stack_dotdots k 0%nat). rewrite Nat.add_0_r. reflexivity. }
  rewrite E. rewrite clean_stack_regular by (rewrite forallb_rev; exact Hr).
  rewrite rev_involutive. reflexivity.
Qed.

Lemma clean_aux_idem abs cs : clean_aux abs [] (clean_aux abs [] cs) = clean_aux abs [] cs.
Proof.
  rewrite !clean_aux_stack. f_equal. apply clean_stack_rev_ok. apply clean_stack_ok.
  exists [], 0%nat. repeat split; auto.
Qed.

Lemma clean_idem p : clean (clean p) = clean p.
Proof. unfold clean; cbn [p_abs p_comps]. rewrite clean_aux_idem. reflexivity. Qed.

Lemma strip_common_app a b : strip_common a (a ++ b) = ([], b).
Proof. induction a as [|x a IH]; cbn; [destruct b; reflexivity|]. rewrite bytes_eqb_refl. exact IH. Qed.

(** ** The `latest` link resolves to the run directory *)

(** With a run id (always, from the command line): the link's text is the run
    id, whatever the output directory. *)
Lemma prepare_dirs_sub dataDir sub : use_sub sub = true -> regular sub = true ->
  let C := p_comps (clean dataDir) in
  prepare_dirs dataDir sub =
  {| d_run := {| p_abs := p_abs dataDir; p_comps := C ++ [sub] |};
     d_alias := {| p_abs := p_abs dataDir; p_comps := C ++ [bs "latest"] |};
     d_target := {| p_abs := false; p_comps := [sub] |};
     d_target_rel := true |}.
Proof.
  intros Hs Rs C. unfold prepare_dirs. rewrite Hs.
  rewrite !join1_comps by (assumption || reflexivity). fold C.
  unfold dir; cbn [p_abs p_comps]. rewrite removelast_snoc.
  assert (R : rel_path {| p_abs := p_abs dataDir; p_comps := C |} {| p_abs := p_abs dataDir; p_comps := C ++ [sub] |}
              = Some {| p_abs := false; p_comps := [sub] |}).
  { unfold rel_path, clean; cbn [p_abs p_comps]. rewrite eqb_reflx. cbn [negb].
    rewrite clean_snoc by exact Rs. unfold C, clean; cbn [p_abs p_comps]. rewrite clean_aux_idem.
    rewrite strip_common_app. reflexivity. }
  rewrite R. reflexivity.
Qed.

Theorem latest_resolves cwd dataDir sub :
  p_abs cwd = true -> use_sub sub = true -> regular sub = true ->
  latest_resolves_to cwd (prepare_dirs dataDir sub) = abs_path cwd (d_run (prepare_dirs dataDir sub)).
Proof.
  intros Ca Hs Rs. rewrite (prepare_dirs_sub dataDir sub Hs Rs). cbv zeta.
  set (C := p_comps (clean dataDir)).
  unfold latest_resolves_to, resolve_link, abs_path. cbn [d_run d_alias d_target p_abs].
  destruct (p_abs dataDir) eqn:A.
  - (* absolute output directory *)
    assert (IC : clean_aux true [] C = C) by (unfold C, clean; cbn [p_comps]; rewrite A; apply clean_aux_idem).
    unfold join, dir, clean. cbn [p_abs p_comps].
    rewrite (clean_snoc true C (bs "latest") eq_refl). rewrite IC, removelast_snoc.
    rewrite (clean_snoc true C sub Rs). rewrite IC. reflexivity.
  - (* relative: everything hangs below the current directory *)
    unfold join, dir, clean. cbn [p_abs p_comps]. rewrite Ca.
    rewrite !app_assoc.
    rewrite (clean_snoc true (p_comps cwd ++ C) (bs "latest") eq_refl).
    rewrite removelast_snoc.
    rewrite (clean_snoc true (clean_aux true [] (p_comps cwd ++ C)) sub Rs).
    rewrite (clean_snoc true (p_comps cwd ++ C) sub Rs).
    rewrite clean_aux_idem. reflexivity.
Qed.

(** Without a sub-directory (only tests and hooks do that): the text is ".",
    and the link resolves to the output directory itself - shown here for an
    absolute output directory. *)
Lemma rel_path_prefix b t extra :
  p_abs (clean b) = p_abs (clean t) -> p_comps (clean t) = p_comps (clean b) ++ extra ->
  rel_path b t = Some {| p_abs := false; p_comps := extra |}.
Proof.
  intros Ha Hc. unfold rel_path. rewrite Ha, eqb_reflx, Hc, strip_common_app. reflexivity.
Qed.

Lemma latest_resolves_nosub_abs cwd dataDir sub :
  use_sub sub = false -> p_abs dataDir = true ->
  latest_resolves_to cwd (prepare_dirs dataDir sub) = abs_path cwd (d_run (prepare_dirs dataDir sub)) /\
  d_target (prepare_dirs dataDir sub) = {| p_abs := false; p_comps := [] |}.
Proof.
  intros Hs A. unfold prepare_dirs. rewrite Hs.
  rewrite join1_comps by reflexivity. set (C := p_comps (clean dataDir)).
  unfold dir; cbn [p_abs p_comps]. rewrite removelast_snoc.
  assert (IC : clean_aux true [] C = C) by (unfold C, clean; cbn [p_comps]; rewrite A; apply clean_aux_idem).
  assert (R : rel_path {| p_abs := p_abs dataDir; p_comps := C |} dataDir = Some {| p_abs := false; p_comps := [] |}).
  { apply rel_path_prefix; [reflexivity|].
    unfold clean at 2; cbn [p_abs p_comps]. rewrite A, IC, app_nil_r. reflexivity. }
  rewrite R. split; [|reflexivity].
  unfold latest_resolves_to, resolve_link, abs_path. cbn [d_run d_alias d_target p_abs]. rewrite A.
  assert (E1 : clean {| p_abs := true; p_comps := C ++ [bs "latest"] |} = {| p_abs := true; p_comps := C ++ [bs "latest"] |}).
  { unfold clean; cbn [p_abs p_comps]. rewrite (clean_snoc true C (bs "latest") eq_refl), IC. reflexivity. }
  rewrite E1. unfold join, dir. cbn [p_abs p_comps]. rewrite removelast_snoc, app_nil_r.
  unfold clean at 1. cbn [p_abs p_comps]. rewrite IC.
  unfold C, clean. cbn [p_comps]. rewrite A. reflexivity.
Qed.

(** Whatever an earlier run left at <output-dir>/latest - nothing, a link to a
    run directory that still exists, a link to one that was erased - the new
    run replaces it by a link to its own directory. *)
Theorem alias_always_replaced before d : before <> AOther ->
  refresh_alias before d = Some (ALink (d_target d)).
Proof. destruct before; intros H; try reflexivity. contradiction. Qed.

(** * C12: everything a run writes is under the run directory *)
Lemma inside_refl r : inside r r = true.
Proof.
  unfold inside. rewrite eqb_reflx. cbn.
  rewrite <- (app_nil_r (p_comps r)) at 2. apply prefix_comps_app.
Qed.

Lemma prefix_comps_snoc a b c : prefix_comps a b = true -> prefix_comps a (b ++ c) = true.
Proof.
  revert b; induction a as [|x a IH]; intros b H; [reflexivity|].
  destruct b as [|y b]; [discriminate|]. cbn in *. apply andb_true_iff in H as [H1 H2].
  rewrite H1. apply IH; exact H2.
Qed.

(** Paths in regular form: no "." and no ".." (what filepath.Abs returns). *)
Definition regular_form (p : path) : Prop := forallb regular (p_comps p) = true.

Lemma join1_regular r c : regular_form r -> regular c = true ->
  join1 r c = {| p_abs := p_abs r; p_comps := p_comps r ++ [c] |} /\ regular_form (join1 r c).
Proof.
  intros Hr Hc. rewrite join1_comps by exact Hc. rewrite (clean_regular r Hr).
  split; [reflexivity|]. unfold regular_form; cbn. rewrite forallb_app, Hr. cbn. rewrite Hc. reflexivity.
Qed.

Lemma inside_join1 d r c : regular_form r -> regular c = true -> inside d r = true -> inside d (join1 r c) = true.
Proof.
  intros Hr Hc Hi. destruct (join1_regular r c Hr Hc) as [E _]. rewrite E.
  unfold inside in *. cbn. apply andb_true_iff in Hi as [A B]. rewrite A. cbn.
  apply prefix_comps_snoc; exact B.
Qed.

Definition names_ok (ns : run_names) : Prop :=
  (forall a, In a (n_actors ns) -> regular (fst a) = true /\
             forall n, In n (snd a) -> regular (n ++ bs ".sh") = true /\ regular (n ++ bs ".log") = true) /\
  (forall n, In n (n_csv ns) -> regular n = true) /\
  (forall n, In n (n_logs ns) -> regular n = true) /\
  (forall n, In n (n_plots ns) -> regular n = true).

Theorem all_under_rundir run ns : regular_form run -> names_ok ns ->
  forall p, In p (written run ns) -> inside run p = true.
Proof.
  intros Hr (Ha & Hc & Hl & Hp) p Hin.
  assert (J : forall c, regular c = true -> regular_form (join1 run c) /\ inside run (join1 run c) = true).
  { intros c Rc. split; [apply join1_regular; assumption|apply inside_join1; auto using inside_refl]. }
  assert (J2 : forall c n, regular c = true -> regular n = true -> inside run (join1 (join1 run c) n) = true).
  { intros c n Rc Rn. destruct (J c Rc) as [X Y]. apply inside_join1; assumption. }
  unfold written in Hin.
  destruct Hin as [<-|Hin]; [apply inside_refl|].
  destruct Hin as [<-|Hin]; [apply J; reflexivity|].
  apply in_app_or in Hin as [Hin|Hin].
  { apply in_flat_map in Hin as (a & Hain & Hp').
    destruct (Ha a Hain) as [Ra Rn].
    destruct (J (bs "artifacts") eq_refl) as [A1 A2]. fold (artifacts_dir run) in A1, A2.
    assert (W1 : regular_form (join1 (artifacts_dir run) (fst a))) by (apply join1_regular; assumption).
    assert (W2 : inside run (join1 (artifacts_dir run) (fst a)) = true) by (apply inside_join1; assumption).
    assert (X1 : regular_form (join1 (join1 (artifacts_dir run) (fst a)) (bs "actions"))) by (apply join1_regular; [assumption|reflexivity]).
    assert (X2 : inside run (join1 (join1 (artifacts_dir run) (fst a)) (bs "actions")) = true) by (apply inside_join1; [assumption|reflexivity|assumption]).
    unfold actor_files in Hp'. cbv zeta in Hp'.
    destruct Hp' as [<-|[<-|Hp']]; [assumption|assumption|].
    apply in_app_or in Hp' as [Hp'|Hp']; apply in_map_iff in Hp' as (n & <- & Hn); destruct (Rn n Hn) as [S L];
      apply inside_join1; assumption. }
  destruct Hin as [<-|Hin]; [apply J; reflexivity|].
  apply in_app_or in Hin as [Hin|Hin].
  { apply in_map_iff in Hin as (n & <- & Hn). apply J2; [reflexivity|apply Hc; exact Hn]. }
  destruct Hin as [<-|Hin]; [apply J; reflexivity|].
  apply in_app_or in Hin as [Hin|Hin].
  { apply in_map_iff in Hin as (n & <- & Hn). apply J2; [reflexivity|apply Hl; exact Hn]. }
  destruct Hin as [<-|Hin]; [apply J; reflexivity|].
  apply in_app_or in Hin as [Hin|Hin].
  { apply in_map_iff in Hin as (n & <- & Hn). apply J2; [reflexivity|apply Hp; exact Hn]. }
  destruct Hin as [<-|[<-|[<-|[]]]]; apply J; reflexivity.
Qed.

(** * C12: what survives *)
Theorem artifacts_survive_iff f fouled :
  let e := run_end f fouled no_mishap in
  rundir_survives e = true -> artifacts_survive e = (fouled || f_keep f).
Proof.
  destruct f as [k c cg u sp]; destruct fouled, k, c, cg, u, sp; cbn; intros H; try reflexivity; discriminate.
Qed.

Theorem rundir_erased_iff f fouled :
  e_rundir_removed (run_end f fouled no_mishap) = (remove_all f && negb fouled).
Proof. destruct f as [k c cg u sp]; destruct fouled, k, c, cg, u, sp; reflexivity. Qed.

(** ... and in general: the run directory goes iff --clear (or an upload URL
    without --clear) and the program exits with status 0. *)
Theorem rundir_erased_general f fouled m :
  e_rundir_removed (run_end f fouled m) = (remove_all f && negb (e_exit_nonzero (run_end f fouled m))).
Proof. unfold run_end; cbn. apply andb_comm. Qed.

Theorem artifacts_removed_general f fouled m :
  e_artifacts_removed (run_end f fouled m) =
  (negb fouled && negb (negb (f_skip_plot f) && m_plot m) && negb (remove_all f) && negb (f_keep f)).
Proof. unfold run_end; cbn. rewrite negb_orb. reflexivity. Qed.

Theorem foul_flag_is_exit_status f fouled :
  e_foul_flag (run_end f fouled no_mishap) = e_exit_nonzero (run_end f fouled no_mishap).
Proof. destruct f as [k c cg u sp]; destruct fouled, k, c, cg, u, sp; reflexivity. Qed.

Theorem upload_implies_clear f : f_upload f = true -> f_clear_given f = false -> remove_all f = true.
Proof. unfold remove_all. intros -> ->. reflexivity. Qed.

(** * C12: the time range *)
Definition covers (r : option (Z * Z)) (t : Z) : Prop :=
  match r with Some (lo, hi) => (lo <= t <= hi)%Z | None => False end.
Definition range_wf (r : option (Z * Z)) : Prop :=
  match r with Some (lo, hi) => (lo <= hi)%Z | None => True end.

Lemma expand_range_covers r t : range_wf r ->
  range_wf (expand_range r t) /\ covers (expand_range r t) t /\ (forall x, covers r x -> covers (expand_range r t) x).
Proof.
  destruct r as [[lo hi]|]; cbn; intros H.
  - destruct (t <? lo)%Z eqn:A, (hi <? t)%Z eqn:B;
      rewrite ?Z.ltb_lt, ?Z.ltb_ge in *; repeat split; intros; lia.
  - repeat split; try lia; try (intros x []).
Qed.

Lemma fold_expand_covers l : forall r, range_wf r ->
  range_wf (fold_left expand_range l r) /\
  (forall x, covers r x -> covers (fold_left expand_range l r) x) /\
  (forall t, In t l -> covers (fold_left expand_range l r) t).
Proof.
  induction l as [|a l IH]; intros r H; cbn.
  - repeat split; auto. intros t [].
  - destruct (expand_range_covers r a H) as (W & Ca & Cx).
    destruct (IH _ W) as (W' & Cx' & Ct').
    repeat split; auto. intros t [<-|Hin]; auto.
Qed.

Theorem range_contains unit instants : (0 < unit)%Z ->
  let '(lo, hi) := assemble_range unit instants in
  (forall t, In t instants -> (lo <= t <= hi)%Z) /\ (lo <= 0)%Z /\ (lo + unit <= hi)%Z.
Proof.
  intros Hu. unfold assemble_range.
  destruct (fold_expand_covers instants None I) as (W & _ & C).
  destruct (fold_left expand_range instants None) as [[lo hi]|] eqn:F.
  - cbn in W.
    assert ((hi <? lo)%Z = false) as -> by (apply Z.ltb_ge; lia).
    assert (C' : forall t, In t instants -> (lo <= t <= hi)%Z) by (intros t Ht; apply (C t Ht)).
    destruct (0 <? lo)%Z eqn:A, (hi <? 0)%Z eqn:B; rewrite ?Z.ltb_lt, ?Z.ltb_ge in *;
      match goal with |- context [(?x <? ?y)%Z] => destruct (x <? y)%Z eqn:D end;
      rewrite ?Z.ltb_lt, ?Z.ltb_ge in *;
      (split; [intros t Ht; specialize (C' t Ht); lia|lia]).
  - assert (N : instants = []).
    { destruct instants as [|a l]; [reflexivity|]. exfalso. apply (C a). left; reflexivity. }
    subst. cbn. rewrite (proj2 (Z.ltb_lt 0 unit) Hu).
    split; [intros t []|lia].
Qed.

(** * C12: the artifact tree names the files that are there afterwards *)
Lemma listed_is_surviving : forall n pre, listed_files pre n = surviving_files pre n.
Proof.
  fix IH 1. intros [nm k|nm cs] pre.
  - unfold listed_files. cbn. destruct (editor_temp nm), k; reflexivity.
  - unfold listed_files. cbn [listed_files_gen surviving_files]. fold listed_files.
    induction cs as [|c cs IHcs]; [reflexivity|].
    cbn [flat_map]. f_equal; [apply IH|apply IHcs].
Qed.

(** The files in the artifact tree are exactly the files that survive the
    removal of the non-uploadable ones - for every content of the run
    directory. *)
Theorem listed_tree_is_what_survives cs : listed_in cs = surviving_in cs.
Proof.
  unfold listed_in, surviving_in. induction cs as [|c cs IH]; [reflexivity|].
  cbn [flat_map]. f_equal; [apply listed_is_surviving|apply IH].
Qed.

(** Editor temporaries are neither listed nor kept, whatever their kind. *)
Lemma editor_temp_neither nm k pre : editor_temp nm = true ->
  listed_files pre (NFile nm k) = [] /\ surviving_files pre (NFile nm k) = [].
Proof. intros H; unfold listed_files; cbn; rewrite H, andb_false_r; auto. Qed.

(** * C12: several runs into one output directory *)
Lemma mem_id_refl id l : mem_id id (id :: l) = true.
Proof. unfold mem_id; cbn. rewrite bytes_eqb_refl. reflexivity. Qed.

(** A run whose id is taken is refused; it does not move into the other
    run's directory. *)
Theorem second_run_same_id_refused id st st' :
  start_run id st = Some st' -> start_run id st' = None.
Proof.
  unfold start_run. destruct (mem_id id (od_runs st)); [discriminate|].
  destruct (remove_alias (od_alias st)); [|discriminate].
  intros H; inversion H; subst; cbn [od_runs]. rewrite mem_id_refl. reflexivity.
Qed.

(** Run a starts, run b starts later, run a ends and erases its directory
    (--clear): the alias still leads to b's directory. *)
Lemma start_run_inv id st st' : start_run id st = Some st' ->
  mem_id id (od_runs st) = false /\
  st' = {| od_alias := ALink (run_link id); od_runs := id :: od_runs st |}.
Proof.
  unfold start_run. destruct (mem_id id (od_runs st)); [discriminate|].
  destruct (od_alias st); cbn; intros H; inversion H; auto.
Qed.

Theorem later_run_keeps_latest a b st sa sb :
  bytes_eqb a b = false ->
  start_run a st = Some sa -> start_run b sa = Some sb ->
  alias_leads_to (end_run a true sb) = Some b.
Proof.
  intros Hab Ha Hb.
  apply start_run_inv in Ha as [_ ->]. apply start_run_inv in Hb as [_ ->].
  unfold alias_leads_to, end_run, run_link; cbn [od_alias od_runs filter].
  rewrite Hab. cbn [negb]. rewrite mem_id_refl. reflexivity.
Qed.
