(** The invariant of the Next / NextCh / Reset machine of Model/Retry.v
    (property C17) and its preservation by every step. *)
From Shk Require Import Base.Prelude Model.Retry Proofs.RetryProofs.
From Coq Require Import ZifyBool.
Open Scope Z_scope.

Lemma u_ok_spec u : u_ok u = true -> (0 <= u)%Q /\ (u < 1)%Q.
Proof.
  unfold u_ok. intros H. apply andb_true_iff in H. destruct H as [H0 H1].
  split; [apply Qle_bool_iff; exact H0|].
  apply Qnot_le_lt. intros H. apply Qle_bool_iff in H. rewrite H in H1. discriminate.
Qed.

(** Case analysis of one step: one goal per enabled branch of [step]. *)
Ltac step_cases H s s' ob :=
      repeat match type of H with
             | context [negb (u_ok ?u)] => destruct (u_ok u) eqn:?Hu; cbn [negb] in H
             | context [match ph s with _ => _ end] => destruct (ph s) as [|?d ?el ?fired|?d ?el] eqn:?Hph
             | context [if is_reset s then _ else _] => destruct (is_reset s) eqn:?Hir
             | context [if max_reached_next s then _ else _] => destruct (max_reached_next s) eqn:?Hmr
             | context [match ?p with Some _ => _ | None => _ end] => destruct p as [?c|]
             | context [match ?c with SelTimer => _ | _ => _ end] => destruct c
             | context [if ?c then _ else _] => destruct c eqn:?Hc
             end;
      try discriminate H;
      inversion H; subst s'; try subst ob; clear H.

(** [step_inv H] for a variable label, [step_inv_at H] for a given one. *)
Ltac step_inv H :=
  match type of H with
  | step ?s ?l = Some (?s', ?ob) =>
      unfold step in H; destruct l as [?u|?u| |?dt| | | |?pick]; step_cases H s s' ob
  end.
Ltac step_inv_at H :=
  match type of H with
  | step ?s ?l = Some (?s', ?ob) => unfold step in H; step_cases H s s' ob
  end.

(** ** The observation says what happened to the attempt counter. *)
Lemma attempts_counts s l s' ob :
  step s l = Some (s', ob) ->
  match ob with
  | OYield true | OChan ChClosed | OChan (ChTimer _) => g_attempts s' = g_attempts s + 1
  | OYield false | OChan ChNil | ONone | OResetDone false => g_attempts s' = g_attempts s
  | OResetDone true => g_attempts s' = 0
  end.
Proof. intros H. step_inv H; cbn; reflexivity. Qed.

(** ** The invariant *)
Definition phase_ok (s : rstate) : Prop :=
  match ph s with
  | PIdle => True
  | PArmed d el f =>
      is_reset s = false /\ max_reached_next s = false /\ u_ok (g_u s) = true /\
      d = retry_in (ropts s) (cur s) (g_u s) /\ el = g_now s - g_call_at s /\ 0 <= el /\
      (f = true -> d <= el)
  | PBlocked d el =>
      is_reset s = false /\ max_reached_next s = false /\ u_ok (g_u s) = true /\
      d = retry_in (ropts s) (cur s) (g_u s) /\ el = g_now s - g_call_at s /\ 0 <= el /\
      closed s = false /\ cancelled s = false
  end.

Definition Inv (o : opts) (s : rstate) : Prop :=
  ropts s = normalize o /\
  0 <= cur s /\ 0 <= g_attempts s /\
  (0 < max_retries (ropts s) ->
   g_attempts s <= (if is_reset s then 0 else 1) + Z.min (cur s) (max_retries (ropts s))) /\
  phase_ok s /\
  (g_clean s = true ->
   (is_reset s = true /\ g_attempts s = 0 /\ cur s = 0) \/
   (is_reset s = false /\ g_attempts s = cur s + 1)).

Lemma inv_start o c0 x0 : Inv o (start o c0 x0).
Proof.
  unfold Inv, start, phase_ok; cbn. repeat split; try lia.
  intros H; destruct (negb (c0 || x0)); lia.
Qed.

Lemma inv_step o s l s' ob : Inv o s -> step s l = Some (s', ob) -> Inv o s'.
Proof.
  intros (Ho & Hc & Ha & Hb & Hp & Hg) H. unfold phase_ok in Hp.
  step_inv H; unfold Inv, phase_ok, max_reached_next in *; cbn [ropts cur is_reset closed cancelled ph g_now g_call_at g_u g_attempts g_clean set_ph yield_timer] in *;
    try rewrite Hph in Hp; try rewrite Hir in *.
  all: try (repeat split; try assumption; try lia; try tauto;
            try (intros; destruct (g_clean s); [destruct Hg as [(?&?&?)|(?&?)]; auto; try discriminate; try (right; split; [reflexivity|lia])|discriminate]);
            fail).
  rewrite Hph. tauto.
Qed.


Lemma reachable_inv o c0 x0 s : reachable o c0 x0 s -> Inv o s.
Proof. induction 1; [apply inv_start | eapply inv_step; eauto]. Qed.

