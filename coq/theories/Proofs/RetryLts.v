(** Theorems about the Next / NextCh / Reset machine of Model/Retry.v (property
    C17), for every label sequence. *)
From Shk Require Import Base.Prelude Model.Retry Proofs.RetryProofs Proofs.RetryInv Corr.C17.
From Coq Require Import ZifyBool.
Open Scope Z_scope.

(** ** Attempt bound: for every label sequence, at most MaxRetries+1 attempts
    between two effective Resets (with Next, NextCh or any mixture). *)
Lemma at_most_max_plus_one o c0 x0 s :
  reachable o c0 x0 s -> 0 < max_retries o -> g_attempts s <= max_retries o + 1.
Proof.
  intros R Hm. destruct (reachable_inv _ _ _ _ R) as (Ho & Hc & Ha & Hb & _).
  rewrite Ho in Hb. cbn [normalize max_retries] in Hb. specialize (Hb Hm).
  destruct (is_reset s); lia.
Qed.

(** Once the bound is reached no call yields. *)
Lemma exhausted_yields_nothing o c0 x0 s l s' ob :
  reachable o c0 x0 s -> 0 < max_retries o -> g_attempts s = max_retries o + 1 ->
  step s l = Some (s', ob) ->
  match ob with OYield true | OChan ChClosed | OChan (ChTimer _) => False | _ => True end.
Proof.
  intros R Hm Hx H. pose proof (attempts_counts _ _ _ _ H) as Hc.
  assert (R' : reachable o c0 x0 s') by (eapply reach_step; eauto).
  pose proof (at_most_max_plus_one _ _ _ _ R' Hm) as Hb.
  destruct ob as [|[|]|[| |d]|[|]]; auto; lia.
Qed.

(** ** The first attempt is immediate. *)
Lemma first_immediate_gen s u :
  ph s = PIdle -> is_reset s = true -> u_ok u = true ->
  exists s', step s (LCallNext u) = Some (s', OYield true) /\ g_now s' = g_now s /\ ph s' = PIdle /\
             cur s' = cur s /\ is_reset s' = false.
Proof.
  intros Hp Hr Hu. unfold step. rewrite Hu, Hp, Hr. cbn [negb]. eexists. split; [reflexivity|]. cbn. auto.
Qed.

Lemma first_immediate o u :
  u_ok u = true ->
  exists s', step (start o false false) (LCallNext u) = Some (s', OYield true) /\ g_now s' = 0 /\ ph s' = PIdle.
Proof.
  intros Hu. destruct (first_immediate_gen (start o false false) u) as (s' & H & Hn & Hp & _); auto.
  exists s'. auto.
Qed.

(** ** Timing: a yield that had to wait comes no earlier than the armed
    duration, which is [retry_in] of the current attempt, hence no earlier
    than the lower edge of its band. *)
Lemma yield_not_early o c0 x0 s l s' :
  reachable o c0 x0 s -> step s l = Some (s', OYield true) ->
  (is_reset s = true /\ ph s = PIdle /\ g_now s' = g_now s) \/
  (is_reset s = false /\ cur s' = cur s + 1 /\ u_ok (g_u s) = true /\
   retry_in (normalize o) (cur s) (g_u s) <= g_now s' - g_call_at s' /\
   (g_clean s = true -> cur s = g_attempts s - 1)).
Proof.
  intros R H. destruct (reachable_inv _ _ _ _ R) as (Ho & Hc & Ha & Hb & Hp & Hg).
  unfold phase_ok in Hp. rewrite <- Ho.
  step_inv H; cbn [ropts cur is_reset closed cancelled ph g_now g_call_at g_u g_attempts g_clean set_ph yield_timer] in *.
  - left. auto.
  - right. destruct Hp as (Hr & _ & Hu & Hd & Hel & Hel0 & _).
    repeat split; auto; try lia;
    try (intros Hcl; destruct (Hg Hcl) as [(?&?&?)|(?&?)]; [congruence|lia]).
  - right. destruct Hp as (Hr & _ & Hu & Hd & Hel & Hel0 & Hf).
    unfold ready in *. specialize (Hf ltac:(assumption)). repeat split; auto; try lia;
    try (intros Hcl; destruct (Hg Hcl) as [(?&?&?)|(?&?)]; [congruence|lia]).
Qed.

Lemma yield_not_before_lower_edge o c0 x0 s l s' :
  wf_opts o -> reachable o c0 x0 s -> step s l = Some (s', OYield true) -> is_reset s = false ->
  lo (normalize o) (cur s) <= g_now s' - g_call_at s'.
Proof.
  intros Hw R H Hr. destruct (yield_not_early _ _ _ _ _ _ R H) as [(E & _)|(_ & _ & Hu & Hd & _)]; [congruence|].
  apply u_ok_spec in Hu. destruct Hu as [Hu0 Hu1].
  pose proof (band (normalize o) (cur s) (g_u s) (normalize_wf o Hw) Hu0 Hu1). lia.
Qed.

(** The duration armed by Next is inside the band of the current attempt. *)
Lemma armed_in_band o c0 x0 s d el f :
  wf_opts o -> reachable o c0 x0 s -> (ph s = PArmed d el f \/ ph s = PBlocked d el) ->
  lo (normalize o) (cur s) <= d <= hi (normalize o) (cur s).
Proof.
  intros Hw R Hph. destruct (reachable_inv _ _ _ _ R) as (Ho & _ & _ & _ & Hp & _).
  unfold phase_ok in Hp. rewrite <- Ho.
  assert (Hx : u_ok (g_u s) = true /\ d = retry_in (ropts s) (cur s) (g_u s)).
  { destruct Hph as [E|E]; rewrite E in Hp; tauto. }
  destruct Hx as [Hu ->]. apply u_ok_spec in Hu. destruct Hu.
  apply band; auto. rewrite Ho. apply normalize_wf; auto.
Qed.

(** NextCh increments before it computes the back-off: its schedule is one
    step ahead of Next's (an oddity of the code, modelled as it is). *)
Lemma nextch_one_ahead s u s' d :
  step s (LCallNextCh u) = Some (s', OChan (ChTimer d)) ->
  d = retry_in (ropts s) (cur s + 1) u /\ cur s' = cur s + 1.
Proof. intros H. step_inv_at H. cbn. auto. Qed.

Lemma next_arms_current s u s' :
  step s (LCallNext u) = Some (s', ONone) ->
  exists el f, ph s' = PArmed (retry_in (ropts s) (cur s) u) el f /\ cur s' = cur s.
Proof. intros H. step_inv_at H. cbn. eauto. Qed.

(** ** Reset *)
Lemma reset_restores o s :
  ropts s = normalize o -> ph s = PIdle -> closed s = false -> cancelled s = false ->
  exists s', step s LReset = Some (s', OResetDone true) /\
             core s' = core (start o false false) /\ g_attempts s' = 0 /\ g_clean s' = true.
Proof.
  intros Ho Hp Hc Hx. unfold step. rewrite Hp, Hc, Hx. cbn [orb].
  eexists. split; [reflexivity|]. unfold core, start. cbn. rewrite Ho. auto.
Qed.

Lemma reset_when_stopped s :
  ph s = PIdle -> closed s || cancelled s = true -> step s LReset = Some (s, OResetDone false).
Proof. intros Hp Hc. unfold step. rewrite Hp, Hc. reflexivity. Qed.

(** What the machine does next depends only on [core]. *)
Lemma core_congruence s1 s2 l s1' ob :
  core s1 = core s2 -> step s1 l = Some (s1', ob) ->
  exists s2', step s2 l = Some (s2', ob) /\ core s1' = core s2'.
Proof.
  unfold core. intros E H. inversion E as [[Eo Ec Er Ecl Ex Ep]]. clear E.
  unfold step in *. unfold max_reached_next, ready, set_ph, yield_timer in *.
  rewrite <- Eo, <- Ec, <- Er, <- Ecl, <- Ex, <- Ep.
  destruct l as [u|u| |dt| | | |pick];
  repeat match type of H with
         | context [negb (u_ok ?u)] => destruct (u_ok u); cbn [negb] in *
         | context [match ph s1 with _ => _ end] => destruct (ph s1) as [|d el fired|d el] eqn:?Eph
         | context [if ?c then _ else _] => destruct c
         | context [match ?p with Some _ => _ | None => _ end] => destruct p as [c|]
         | context [match ?c with SelTimer => _ | _ => _ end] => destruct c
         | context [match ?f with true => _ | false => _ end] => destruct f
         end; try discriminate H; inversion H; subst; clear H;
  eexists; (split; [reflexivity|]); cbn; congruence.
Qed.

Lemma core_congruence_run ls : forall s1 s2 s1' os,
  core s1 = core s2 -> run s1 ls = Some (s1', os) ->
  exists s2', run s2 ls = Some (s2', os) /\ core s1' = core s2'.
Proof.
  induction ls as [|l ls IH]; intros s1 s2 s1' os E H; cbn [run] in *.
  - inversion H; subst. eauto.
  - destruct (step s1 l) as [[t1 o1]|] eqn:E1; [|discriminate].
    destruct (run t1 ls) as [[t1' os1]|] eqn:R1; [|discriminate]. inversion H; subst; clear H.
    destruct (core_congruence _ _ _ _ _ E E1) as (t2 & E2 & Ec).
    destruct (IH _ _ _ _ Ec R1) as (t2' & R2 & Ec').
    rewrite E2, R2. eauto.
Qed.

(** After an effective Reset every continuation behaves as from a fresh Start. *)
Lemma reset_then_as_fresh o s ls s1 os :
  ropts s = normalize o -> ph s = PIdle -> closed s = false -> cancelled s = false ->
  run s (LReset :: ls) = Some (s1, os) ->
  exists s2 os', os = OResetDone true :: os' /\ run (start o false false) ls = Some (s2, os') /\ core s1 = core s2.
Proof.
  intros Ho Hp Hc Hx H. destruct (reset_restores o s Ho Hp Hc Hx) as (s' & Hs & Ec & _).
  cbn [run] in H. rewrite Hs in H. destruct (run s' ls) as [[t os']|] eqn:R; [|discriminate].
  inversion H; subst; clear H.
  destruct (core_congruence_run ls _ _ _ _ Ec R) as (s2 & R2 & E2). eauto.
Qed.

(** ** Closer and context *)

(** A parked select is ended by the close / the cancellation itself. *)
Lemma close_while_blocked_stops s d el :
  ph s = PBlocked d el ->
  (closed s = false -> exists s', step s LCloserClosed = Some (s', OYield false) /\ ph s' = PIdle) /\
  (cancelled s = false -> exists s', step s LCtxCancelled = Some (s', OYield false) /\ ph s' = PIdle).
Proof.
  intros Hp. split; intros Hc; unfold step; rewrite Hc, Hp; eexists; split; reflexivity.
Qed.

(** The partial statement: with the closer closed or the context cancelled, an
    attempt is yielded only (a) by a call of Next in the reset state, or (b) by
    a select that found its timer already fired when it polled. *)
Lemma no_attempt_after_close_partial o c0 x0 s l s' :
  reachable o c0 x0 s -> closed s || cancelled s = true ->
  step s l = Some (s', OYield true) ->
  (exists u, l = LCallNext u /\ is_reset s = true /\ ph s = PIdle) \/
  (exists d el, l = LPoll (Some SelTimer) /\ ph s = PArmed d el true /\ d <= el).
Proof.
  intros R Hc H. destruct (reachable_inv _ _ _ _ R) as (_ & _ & _ & _ & Hp & _).
  unfold phase_ok in Hp.
  step_inv H; cbn [ropts cur is_reset closed cancelled ph g_now g_call_at g_u g_attempts g_clean set_ph yield_timer] in *.
  - left. eauto.
  - exfalso. destruct Hp as (_ & _ & _ & _ & _ & _ & Hcl & Hx). rewrite Hcl, Hx in Hc. discriminate.
  - right. cbn [ready] in *. subst fired. destruct Hp as (_ & _ & _ & _ & _ & _ & Hf).
    exists d, el. auto.
Qed.

(** Hence: closed or cancelled, not in the reset state, timer not fired when
    the select looks: Next can only return false. *)
Lemma stops_when_told o c0 x0 s l s' b :
  reachable o c0 x0 s -> closed s || cancelled s = true -> is_reset s = false ->
  (forall d el, ph s <> PArmed d el true) ->
  step s l = Some (s', OYield b) -> b = false.
Proof.
  intros R Hc Hr Hnf H. destruct b; [|reflexivity]. exfalso.
  destruct (no_attempt_after_close_partial _ _ _ _ _ _ R Hc H) as [(u & _ & E & _)|(d & el & _ & E & _)].
  - congruence.
  - exact (Hnf _ _ E).
Qed.

(** ... and a poll of the select with closer closed / context cancelled never parks. *)
Lemma closed_select_does_not_park s d el f s' ob :
  ph s = PArmed d el f -> closed s || cancelled s = true ->
  step s (LPoll None) = Some (s', ob) -> False.
Proof.
  intros Hp Hc H. unfold step in H. rewrite Hp in H.
  destruct f; cbn [orb] in H; [discriminate|].
  rewrite Hc in H. discriminate.
Qed.

(** A false yield is always justified: bound reached, closer closed or context cancelled. *)
Lemma false_is_justified s l s' :
  step s l = Some (s', OYield false) ->
  max_reached_next s = true \/ closed s' = true \/ cancelled s' = true.
Proof.
  intros H. step_inv H; cbn [ropts cur is_reset closed cancelled ph set_ph] in *; unfold ready in *; auto.
Qed.

(** ** The full "no attempt once stopped" statement and its refutation *)
Definition no_attempt_after_stop : Prop :=
  forall o c0 x0 s l s',
    reachable o c0 x0 s -> closed s || cancelled s = true -> step s l = Some (s', OYield true) -> False.

(** Executable check of a counterexample: after [ls] the closer is closed (or
    the context cancelled) and [l] yields an attempt. *)
Definition yields_when_stopped (o : opts) (ls : list label) (l : label) : bool :=
  match run (start o false false) ls with
  | Some (s, _) =>
      (closed s || cancelled s) &&
      match step s l with Some (_, OYield true) => true | _ => false end
  | None => false
  end.

Lemma run_reachable o c0 x0 ls : forall s s' os,
  reachable o c0 x0 s -> run s ls = Some (s', os) -> reachable o c0 x0 s'.
Proof.
  induction ls as [|l ls IH]; intros s s' os R H; cbn [run] in H.
  - inversion H; subst; exact R.
  - destruct (step s l) as [[t ob]|] eqn:E; [|discriminate].
    destruct (run t ls) as [[t' os']|] eqn:E'; [|discriminate]. inversion H; subst.
    eapply IH; [eapply reach_step; eauto | eauto].
Qed.

Lemma counterexample_refutes o ls l :
  yields_when_stopped o ls l = true -> ~ no_attempt_after_stop.
Proof.
  unfold yields_when_stopped. intros H F.
  destruct (run (start o false false) ls) as [[s os]|] eqn:Er; [|discriminate].
  apply andb_true_iff in H. destruct H as [Hc Hs].
  destruct (step s l) as [[s' ob]|] eqn:Es; [|discriminate].
  destruct ob as [|[|]| |]; try discriminate.
  apply (F o false false s l s'); auto.
  eapply run_reachable; [apply reach_start | exact Er].
Qed.

Definition witness_opts : opts :=
  {| init_backoff := 1000; max_backoff := 1000; multiplier := 1; max_retries := 0; rand_factor := 1 # 2 |}.
(** Witness 1: Next; Reset; close; Next. *)
Definition witness_reset : list label := [LCallNext 0; LReset; LCloserClosed].
(** Witness 2: Next; Next waits 500 ns; the timer fires; close; the select picks the timer. *)
Definition witness_race : list label := [LCallNext 0; LCallNext 0; LTick 500; LTimerFires; LCloserClosed].

Lemma witness_reset_yields : yields_when_stopped witness_opts witness_reset (LCallNext 0) = true.
Proof. vm_compute. reflexivity. Qed.
Lemma witness_race_yields : yields_when_stopped witness_opts witness_race (LPoll (Some SelTimer)) = true.
Proof. vm_compute. reflexivity. Qed.

Lemma no_attempt_after_stop_refuted : ~ no_attempt_after_stop.
Proof. exact (counterexample_refutes _ _ _ witness_reset_yields). Qed.

(** ** Back-offs that are zero or negative (Multiplier < 1 decayed below 1 ns,
    RandomizationFactor > 1).  Nothing in the machine is special-cased for
    them: Next never hands out an attempt without going through the select,
    whatever [retry_in] is; the timer of a non-positive delay may fire at once
    ([LTimerFires] is enabled with no time passed), but it is the runtime that
    fires it, after [time.After] returned. *)
Lemma next_yields_only_through_select s u s' ob :
  is_reset s = false -> step s (LCallNext u) = Some (s', ob) ->
  ob = OYield false \/
  (ob = ONone /\ ph s' = PArmed (retry_in (ropts s) (cur s) u) 0 false /\
   closed s' = closed s /\ cancelled s' = cancelled s).
Proof.
  intros Hr H. step_inv_at H; cbn; auto. congruence.
Qed.

(** Told to stop before the call: if the select looks at its cases before the
    runtime has fired the timer, Next refuses — for every back-off, zero and
    negative ones included. *)
Lemma stopped_prompt_poll_refuses s u s1 ob1 :
  closed s || cancelled s = true -> is_reset s = false ->
  step s (LCallNext u) = Some (s1, ob1) ->
  ob1 = OYield false \/
  (ob1 = ONone /\ forall pick s2 ob2, step s1 (LPoll pick) = Some (s2, ob2) -> ob2 = OYield false).
Proof.
  intros Hc Hr H.
  destruct (next_yields_only_through_select _ _ _ _ Hr H) as [E|(E & Hp & Ecl & Ex)]; [left; exact E|].
  right. split; [exact E|]. intros pick s2 ob2 H2.
  unfold step in H2. rewrite Hp in H2. rewrite <- Ecl, <- Ex in Hc.
  destruct pick as [[| |]|]; cbn [ready] in H2.
  - discriminate.
  - destruct (closed s1); [inversion H2; reflexivity | discriminate].
  - destruct (cancelled s1); [inversion H2; reflexivity | discriminate].
  - cbn [orb] in H2. rewrite Hc in H2. discriminate.
Qed.

(** ... and the select has a case to pick: such a poll is enabled. *)
Lemma stopped_prompt_poll_enabled s d el f :
  ph s = PArmed d el f -> closed s || cancelled s = true ->
  exists pick s', step s (LPoll (Some pick)) = Some (s', OYield false).
Proof.
  intros Hp Hc. destruct (closed s) eqn:Ecl.
  - exists SelCloser. unfold step. rewrite Hp. cbn [ready]. rewrite Ecl. eauto.
  - cbn [orb] in Hc. exists SelCtx. unfold step. rewrite Hp. cbn [ready]. rewrite Hc. eauto.
Qed.

(** Decayed and over-wide option sets: the computed delay really is <= 0. *)
Definition decayed_opts : opts :=
  {| init_backoff := 1000; max_backoff := 1000000000; multiplier := 1 # 2; max_retries := 0; rand_factor := 1 # 4 |}.
Definition wide_opts : opts :=
  {| init_backoff := 1000000; max_backoff := 1000000; multiplier := 1; max_retries := 0; rand_factor := 5 # 1 |}.
Lemma nonpositive_delays :
  retry_in decayed_opts 45 (1 # 2) = 0 /\ retry_in wide_opts 0 (1 # 10) = -2999999 /\ retry_in wide_opts 0 (2 # 5) = 0.
Proof. vm_compute. repeat split. Qed.

(** The shortcut the correspondence uses to reach deep schedule positions is
    the state component of the model's own NextCh step. *)
Lemma skip_nextch_is_step s u :
  u_ok u = true -> ph s = PIdle ->
  exists ob, step s (LCallNextCh u) = Some (skip_nextch s u, ob).
Proof.
  intros Hu Hp. unfold step, skip_nextch. rewrite Hu, Hp. cbn [negb].
  destruct (is_reset s); [eexists; reflexivity|].
  destruct ((0 <? max_retries (ropts s)) && (max_retries (ropts s) <? cur s + 1)); eexists; reflexivity.
Qed.

(** The schedule does not depend on the context or the closer: the options a
    loop works with are the normalised options it was started with, whatever
    the context (live, cancelled, with or without a deadline) and for ever. *)
Lemma options_fixed o c0 x0 s : reachable o c0 x0 s -> ropts s = normalize o.
Proof. intros R. destruct (reachable_inv _ _ _ _ R) as (Ho & _). exact Ho. Qed.
