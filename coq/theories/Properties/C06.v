(** C06 — storylines compile to exactly the timed scenes they denote.
    Statements only; every proof is [exact <lemma>].

    Reading guide.  Model/Storyline.v and Model/Compile.v transcribe the Go
    code (validateStoryLine, extractAction, combineActs, combineStoryLines, the
    storyline / edit / scene clauses of parseScript, compileV2).
    Model/Denote.v is the independent denotation: [acts_of] (a clause's acts),
    [columns] (an act's columns), [union_story] (column-wise union in clause
    order), [den_specs] (what the scene definitions mean), [denote_play]
    (groups at k * tempo with first `mood starts`, lines, last `mood ends`),
    [flatten_play] (the stated representation of groups as scenes) and
    [timeline] (how prompt.go reads scenes as a schedule).

    All statements hold for strings, storylines, scripts and tempos of ANY
    size (induction; no bound).  Domain conditions, where present:
    [no_ctl text] = the text contains no white space other than ' ';
    [cmd_dom] = the same for every clause, and edits do not introduce such
    white space; [0 <= tempo] for the schedule reading.

    The printed steps: Model/StepsText.v [print_text] is the text printSteps
    prints, byte for byte (durations as time.Duration.String prints them);
    Model/StepsRead.v reads such a text back.  Times are integers in
    nanoseconds everywhere.

    What is NOT proved here: index safety of the Go functions (the models use
    suffixes instead of cursors; a crash of the real code shows up in the
    correspondence check only).  Go's regexp is not modelled: the statements
    about `edit` hold for every substitution function.  (Model/Regex.v is not
    a model of it either: it is the oracle's own leftmost-first matcher, used
    by the correspondence check to say what an edit with a pattern of its
    subset must produce; see [c06_edit_leftmost_first_example].) *)
From Shk Require Import Base.Prelude Model.Storyline Model.Compile Model.Denote
     Proofs.StorylineProofs Proofs.StoryScriptProofs Proofs.CompileProofs
     Model.StepsText Model.StepsRead Proofs.StepsTextProofs Model.Regex.
Open Scope Z_scope.

(** validateStoryLine accepts exactly the well-formed clauses, and returns the
    clause's acts (`_` removed, split at spaces); otherwise it is an error —
    never a panic. *)
Theorem c06_validate_iff_wellformed : forall dfn text, no_ctl text ->
  (wf_story dfn (acts_of text) = true -> validate_storyline dfn text = Ok (acts_of text))
  /\ (wf_story dfn (acts_of text) = false -> is_err (validate_storyline dfn text)).
Proof. exact validate_storyline_spec. Qed.

(** combineActs: the columns of the merged act are the column-wise union, in
    argument order, padded with empty columns; the merged act is well formed. *)
Theorem c06_combine_acts_denotes : forall dfn a1 a2,
  wf_act dfn a1 = true -> wf_act dfn a2 = true ->
  exists r, combine_acts a1 a2 = Ok r
            /\ columns r = union_act (columns a1) (columns a2)
            /\ wf_act dfn r = true.
Proof. exact combine_acts_wf. Qed.

(** combine_denotes: the same for whole storylines (acts aligned, the longer
    one's extra acts kept). *)
Theorem c06_combine_denotes : forall dfn l1 l2,
  wf_story dfn l1 = true -> wf_story dfn l2 = true ->
  exists r, combine_storylines l1 l2 = Ok r
            /\ map columns r = union_story (map columns l1) (map columns l2)
            /\ wf_story dfn r = true.
Proof. exact combine_storylines_wf. Qed.

(** combine_valid: a well-formed storyline (so: any merge result) is printed
    as a text that validateStoryLine reads back as the same storyline. *)
Theorem c06_combine_valid : forall dfn l, wf_story dfn l = true ->
  validate_storyline dfn (print_story l) = Ok l.
Proof. exact print_reread. Qed.

(** One clause of a script: the state stays well formed, the storyline moves
    as the denotation's step relation says, scenes stay defined; a refusal
    happens exactly for a malformed clause / edit result (or an unknown
    actor); no panic, no fuel exhaustion. *)
Theorem c06_clause_step : forall cs st c,
  st_wf st -> cmd_dom c ->
  match run_cmd cs st c with
  | Ok st' => st_wf st' /\ story_step (defined (st_specs st)) (st_story st) c (st_story st')
              /\ (forall x, defined (st_specs st) x = true -> defined (st_specs st') x = true)
  | Err _ => match c with
             | CStoryline t => wf_story (defined (st_specs st)) (acts_of t) = false
             | CEdit f => wf_story (defined (st_specs st)) (acts_of (f (print_story (st_story st)))) = false
             | CEntails _ (TActor a) _ => existsb (fun e => bytes_eqb (fst e) a) (cs ++ st_more st) = false
             | _ => False
             end
  | _ => False
  end.
Proof. exact run_cmd_spec. Qed.

(** edit_then_validate: for EVERY substitution function, the edited text is
    used iff it is a well-formed clause, and then the storyline is exactly its
    acts; otherwise the clause is an error. *)
Theorem c06_edit_then_validate : forall dfn cur f,
  no_ctl (f (print_story cur)) ->
  (wf_story dfn (acts_of (f (print_story cur))) = true ->
     do_edit dfn cur f = Ok (acts_of (f (print_story cur))))
  /\ (wf_story dfn (acts_of (f (print_story cur))) = false -> is_err (do_edit dfn cur f)).
Proof. exact do_edit_spec. Qed.

Theorem c06_script_invariant : forall cs cmds st,
  st_wf st -> Forall cmd_dom cmds ->
  match run_script cs st cmds with
  | Ok st' => st_wf st'
  | Err _ => True
  | _ => False
  end.
Proof. exact run_script_inv. Qed.

(** The storyline is the column-wise union of all storyline clauses, in
    clause order ... *)
Theorem c06_clauses_denote_union : forall cs cmds st st',
  st_wf st -> Forall cmd_dom cmds -> no_edit cmds = true ->
  run_script cs st cmds = Ok st' ->
  map columns (st_story st') = den_story_from (map columns (st_story st)) cmds.
Proof. exact run_script_clauses. Qed.

(** ... after the edit substitutions: the clauses that follow the last edit
    are united onto the substituted text of what was printed before it. *)
Theorem c06_clauses_after_last_edit : forall cs pre f post st st',
  st_wf st -> Forall cmd_dom (pre ++ CEdit f :: post) -> no_edit post = true ->
  run_script cs st (pre ++ CEdit f :: post) = Ok st' ->
  exists st0, run_script cs st pre = Ok st0
    /\ wf_story (defined (st_specs st0)) (acts_of (f (print_story (st_story st0)))) = true
    /\ map columns (st_story st') =
       den_story_from (map columns (acts_of (f (print_story (st_story st0))))) post.
Proof. exact run_script_after_edit. Qed.

(** The table built by the scene clauses means what the clauses say: entails
    in clause order, one per selected actor in cast order; the last
    `mood starts` / `mood ends` of a scene. *)
Theorem c06_specs_denote : forall cs cmds st,
  run_script cs init_state cmds = Ok st ->
  forall c, sem_of (st_specs st) c = den_specs cs cmds c.
Proof. exact script_specs_denote. Qed.

(** compile_denotes, one act and whole storylines: the compiled play IS the
    stated representation of the denotation. *)
Theorem c06_compile_act_denotes : forall sp tempo a, wf_act (defined sp) a = true ->
  compile_act sp tempo a = Ok (flatten_act (denote_act (sem_of sp) tempo (columns a))).
Proof. exact compile_act_denotes. Qed.

Theorem c06_compile_denotes : forall sp tempo sl, wf_story (defined sp) sl = true ->
  compile sp tempo sl = Ok (flatten_play (denote_play (sem_of sp) tempo (map columns sl))).
Proof. exact compile_denotes. Qed.

(** End to end: every script that is accepted compiles to the denotation of
    its storyline under the meaning of its scene definitions. *)
Theorem c06_script_compiles_to_denotation : forall cs tempo cmds st,
  Forall cmd_dom cmds ->
  run_script cs init_state cmds = Ok st ->
  compile_script cs tempo cmds =
  Ok (st_story st,
      flatten_play (denote_play (den_specs cs cmds) tempo (map columns (st_story st)))).
Proof. exact script_compiles_to_denotation. Qed.

(** The representation read as a schedule (prompt.go's loop, actions taking no
    time): every scene of group k starts at k * tempo, in the order
    before-mood, lines, after-mood; the act ends at (number of columns) *
    tempo. *)
Theorem c06_flatten_schedule : forall sem tempo cols, 0 <= tempo ->
  timeline (flatten_act (denote_act sem tempo cols)) = act_events (denote_act sem tempo cols)
  /\ snd (denote_act sem tempo cols) = Z.of_nat (List.length cols) * tempo
  /\ (forall g, In g (fst (denote_act sem tempo cols)) ->
        forall ev, In ev (group_events g) -> fst ev = g_at g).
Proof.
  intros sem tempo cols H. split; [exact (flatten_schedule sem tempo cols H)|].
  split; [reflexivity | intros g _; exact (group_events_at g)].
Qed.

(** A script in the domain never panics and never runs out of fuel — in the
    model (see the header: this is not index safety of the Go code). *)
Theorem c06_no_panic_no_fuel : forall cs tempo cmds, Forall cmd_dom cmds ->
  match compile_script cs tempo cmds with Ok _ | Err _ => True | _ => False end.
Proof. exact script_never_panics. Qed.

(** * The printed steps (-p) *)

(** A printed duration reads back as the same number of nanoseconds, for every
    duration: the dump never blurs two different scene times (1.5ms, 2500us,
    999999ns, 1h0m0.000000001s ...). *)
Theorem c06_duration_text_exact : forall d, parse_dur (fmt_dur d) = Some d.
Proof. exact parse_dur_fmt. Qed.

(** printSteps does not crash on a play made of the two kinds of lines the
    compiler produces, and its text can be read back: it shows, per act, the
    act number and header, every scene that has lines with its number, the
    time in force and the lines (actors, actions, `?` marks, moods), and the
    time in force at the end of the act. *)
Theorem c06_printed_steps_read_back : forall story p rep,
  play_ok p -> play_clean p -> Forall no_nl story ->
  exists text, print_text story p rep = Ok text
               /\ read_events (decode_text text) = play_view 1 story p.
Proof. exact printed_text_read_back. Qed.

(** ... so two plays with the same printed steps have the same view. *)
Theorem c06_printed_steps_injective : forall s1 p1 r1 s2 p2 r2,
  play_ok p1 -> play_clean p1 -> Forall no_nl s1 ->
  play_ok p2 -> play_clean p2 -> Forall no_nl s2 ->
  print_text s1 p1 r1 = print_text s2 p2 r2 ->
  play_view 1 s1 p1 = play_view 1 s2 p2.
Proof. exact printed_text_determines_view. Qed.

(** For compiled plays the view IS the denoted schedule (every group's events
    at k * tempo, the act's end at ncols * tempo): two compiled plays that
    print the same steps have the same acts, scene times, lines and moods, and
    the same act headers.  Comparing printed text loses nothing the property
    constrains. *)
Theorem c06_printed_steps_determine_play :
  forall sem1 tempo1 cols1 st1 r1 sem2 tempo2 cols2 st2 r2,
  0 <= tempo1 -> 0 <= tempo2 ->
  (forall c, spec_clean (sem1 c)) -> (forall c, spec_clean (sem2 c)) ->
  Forall no_nl st1 -> Forall no_nl st2 ->
  print_text st1 (flatten_play (denote_play sem1 tempo1 cols1)) r1
  = print_text st2 (flatten_play (denote_play sem2 tempo2 cols2)) r2 ->
  map act_events (denote_play sem1 tempo1 cols1) = map act_events (denote_play sem2 tempo2 cols2)
  /\ headers st1 (List.length cols1) = headers st2 (List.length cols2).
Proof. exact printed_steps_determine_compiled_play. Qed.

Theorem c06_compiled_play_view : forall sem tempo cols, 0 <= tempo ->
  let v := act_view 1 0 (flatten_act (denote_act sem tempo cols)) in
  (strip (fst v), snd v) = act_events (denote_act sem tempo cols).
Proof. exact compiled_act_view. Qed.

(** * Non-vacuity *)
Definition ex_sp : specs :=
  [ (x61, mkSpec [([x41], [[x70]; [x71; x3f]])] [x52] []);      (* a: A does p, q?; mood starts R *)
    (x62, mkSpec [([x42], [[x72]]); ([x41], [])] [] [x54]);     (* b: B does r; A nothing; mood ends T *)
    (x63, mkSpec [] [] [x55]) ].                                (* c: mood ends U *)

(** docs/manual.md: `..a bc` merged with `a b c` produces `a.a b+bc c`. *)
Example c06_manual_example :
  do_storyline (defined ex_sp) [[x2e; x2e; x61]; [x62; x63]] [x61; x20; x62; x20; x63]
  = Ok [[x61; x2e; x61]; [x62; x2b; x62; x63]; [x63]]
  /\ wf_story (defined ex_sp) [[x61; x2e; x61]; [x62; x2b; x62; x63]; [x63]] = true
  /\ map columns [[x61; x2e; x61]; [x62; x2b; x62; x63]; [x63]]
     = [[[x61]; []; [x61]]; [[x62; x62]; [x63]]; [[x63]]].
Proof. vm_compute. repeat split. Qed.

(** a+b+c then `.` then c: first mood starts, lines, LAST mood ends (U, not T),
    with waitUntil 0; the empty column produces no scene; the lone c has its
    mood scene at its own time; the act ends at 3 * tempo. *)
Example c06_compile_example :
  compile_act ex_sp 10 [x61; x2b; x62; x2b; x63; x2e; x63]
  = Ok [ mkScene 0 [mkLine None [mkStep true [x52] false]];
         mkScene 0 [mkLine (Some [x41]) [mkStep false [x70] false; mkStep false [x71] true];
                    mkLine (Some [x42]) [mkStep false [x72] false]];
         mkScene 0 [mkLine None [mkStep true [x55] false]];
         mkScene 20 [mkLine None [mkStep true [x55] false]];
         mkScene 30 [] ].
Proof. vm_compute. reflexivity. Qed.

(** The refusals exist (so the Err branches of the statements are not vacuous). *)
Example c06_refusals :
  validate_storyline (defined ex_sp) [x61; x2b] = Err 12
  /\ validate_storyline (defined ex_sp) [x61; x20; x2b; x62] = Err 21
  /\ validate_storyline (defined ex_sp) [x61; x2b; x2b; x62] = Err 13
  /\ validate_storyline (defined ex_sp) [x61; x7a] = Err 14
  /\ do_edit (defined ex_sp) [[x61; x62]] (fun _ => [x61; x2b]) = Err 12.
Proof. vm_compute. repeat split. Qed.

(** The dump of the compile example, and reading it back. *)
Example c06_print_example :
  match print_text [[x61; x2b; x62; x2b; x63; x2e; x63]]
               [[ mkScene 0 [mkLine None [mkStep true [x52] false]];
                  mkScene 0 [mkLine (Some [x41]) [mkStep false [x70] false; mkStep false [x71] true];
                             mkLine (Some [x42]) [mkStep false [x72] false]];
                  mkScene 0 [mkLine None [mkStep true [x55] false]];
                  mkScene 1500000 [mkLine None [mkStep true [x55] false]];
                  mkScene 2250000 [] ]] 0 with
  | Ok text =>
      decode_text text =
       [ PAct 1 (Some [x61; x2b; x62; x2b; x63; x2e; x63]);
         PMood 1 [x52];
         PDo 2 [x41] [x70] false; PDo 2 [x41] [x71] true; PMeanwhile 2; PDo 2 [x42] [x72] false;
         PMood 3 [x55];
         PWait 4 1500000; PMood 4 [x55];
         PWait 5 2250000 ]
  | _ => False
  end
  /\ fmt_dur 1500000 = [x31; x2e; x35; x6d; x73] /\ fmt_dur 2250000 = [x32; x2e; x32; x35; x6d; x73].
Proof. vm_compute. repeat split. Qed.

(** `edit` with alternatives that are prefixes of one another and a lazy
    operator, under Perl / Go leftmost-first matching: `ab.b ba` edited by
    s/a|ab/c/ and then s/ b.*?/ c/ is `cb.b cc` (leftmost-longest matching
    would give `c.b c`). *)
Example c06_edit_leftmost_first_example :
  let a := Chr x61 in let b := Chr x62 in
  let e1 := re_replace (Alt a (Cat a b)) [x63] in
  let e2 := re_replace (Cat (Chr x20) (Cat b (Star false Any))) [x20; x63] in
  let dfn := fun c => Byte.eqb c x61 || Byte.eqb c x62 || Byte.eqb c x63 in
  obind (do_edit dfn [[x61; x62; x2e; x62]; [x62; x61]] e1) (fun sl => do_edit dfn sl e2)
  = Ok [[x63; x62; x2e; x62]; [x63; x63]].
Proof. vm_compute. reflexivity. Qed.

(** Several cast sections: `every <role>` means the actors of the role when
    the clause is read.  Scene a is defined with one doctor (A); two more are
    hired (B, C); scene b, defined afterwards, entails all three, scene a still
    only A. *)
Example c06_late_cast_example :
  let doc := [x64] in
  let cmds := [ CEntails x61 (TEvery doc) [[x70]];
                CCast [([x42], doc); ([x43], doc)];
                CEntails x62 (TEvery doc) [[x71; x3f]];
                CStoryline [x61; x62] ] in
  compile_script [([x41], doc)] 5 cmds
  = Ok ([[x61; x62]],
        [[ mkScene 0 [mkLine (Some [x41]) [mkStep false [x70] false]];
           mkScene 5 [mkLine (Some [x41]) [mkStep false [x71] true];
                      mkLine (Some [x42]) [mkStep false [x71] true];
                      mkLine (Some [x43]) [mkStep false [x71] true]];
           mkScene 10 [] ]])
  /\ map fst (ss_entails (den_specs [([x41], doc)] cmds x61)) = [[x41]]
  /\ map fst (ss_entails (den_specs [([x41], doc)] cmds x62)) = [[x41]; [x42]; [x43]].
Proof. vm_compute. repeat split. Qed.

(** A clause written over several lines (backslash continuation: the newline
    and the indentation stay in the clause) or with tabs next to blanks reads
    like the same clause on one line. *)
Example c06_multi_line_clause_example :
  let dfn := defined ex_sp in
  let multi := [x61; x2e; x62; x20; x0a; x20; x20; x20; x62; x5f; x61; x20; x09; x0a; x20; x2e; x63] in
  ws_ok multi = true
  /\ validate_storyline dfn multi = Ok [[x61; x2e; x62]; [x62; x61]; [x2e; x63]]
  /\ acts_of (blank_ws multi) = [[x61; x2e; x62]; [x62; x61]; [x2e; x63]]
  /\ validate_storyline dfn (blank_ws multi) = validate_storyline dfn multi
  /\ ws_ok [x61; x0a; x62] = false.
Proof. vm_compute. repeat split. Qed.
