(** C20 — Parameters and includes.  Statements only; every proof is
    [exact <lemma>].

    Proved of the model: what preprocReplace computes (exactly leftmost,
    non-overlapping, single-pass replacement of ~name~ by a defined value; an
    undefined name is an error naming it), the precedence of definitions, the
    three clauses the reader/dispatch model handles itself (title, attention,
    include are substituted; author is not), and the semantics of include
    (splice, search order, depth limit).  WHICH field of the regexp-dispatched
    clauses passes through preprocReplace is not transcribed: the documented
    list (role names, `every`, multiplicity, `with`, expressions, repeat count
    and time substituted; commands, signal patterns, labels, names untouched)
    is checked on the real parser by planting ~p~ in every field
    (checks/c20.py). *)
From Shk Require Import Base.Prelude Model.ParseSmall Model.Reader Proofs.ParseSmallProofs Proofs.ReaderProofs.
Open Scope Z_scope.

(** preprocReplace is exactly [Expand]: scanning from the left, every
    occurrence ~word~ standing where the scan stands is replaced by the value
    of a defined parameter and the scan resumes AFTER it (so a value holding
    ~x~ is not expanded again); undefined names are left and reported; every
    other byte is copied.  [Expand] determines the result uniquely. *)
Theorem c20_preproc_exact : forall pv s,
  exists out u, Expand pv s out u /\
    (forall out' u', Expand pv s out' u' -> out' = out /\ u' = u) /\
    preproc pv s = match u with [] => PpOk out | _ => PpUndefined u end.
Proof. exact preproc_exact. Qed.

(** An undefined parameter in a substituted place is an error that names it
    (as ~name~), and only undefined names are named. *)
Theorem c20_undefined_named : forall pv s names,
  preproc pv s = PpUndefined names ->
  names <> [] /\ forall m, In m names -> exists w, m = x_tilde :: w ++ [x_tilde] /\ pv_lookup pv w = None.
Proof. exact preproc_undefined_named. Qed.

Theorem c20_text_without_tilde_untouched : forall pv s, ~ In x_tilde s -> preproc pv s = PpOk s.
Proof. exact preproc_untouched_without_tilde. Qed.

(** Substitution is ONE pass, so it terminates and its result is bounded
    whatever the values mention — themselves and cycles included. *)
Theorem c20_preproc_single_pass_bounded : forall pv s,
  match preproc pv s with
  | PpOk out => Expand pv s out [] /\ (length out <= length s * S (max_val_len pv))%nat
  | PpUndefined names => names <> []
  | PpPanic => False
  end.
Proof. exact preproc_single_pass_bounded. Qed.

(** parameter who defaults to dear ~who~ ; a -> ~b~, b -> ~a~ *)
Example c20_ex_self_reference_is_literal :
  preproc [([x77; x68; x6f], [x64; x65; x61; x72; x20; x7e; x77; x68; x6f; x7e])] [x68; x65; x6c; x6c; x6f; x20; x7e; x77; x68; x6f; x7e] = PpOk [x68; x65; x6c; x6c; x6f; x20; x64; x65; x61; x72; x20; x7e; x77; x68; x6f; x7e] /\
  preproc [([x61], [x7e; x62; x7e]); ([x62], [x7e; x61; x7e])] [x7e; x61; x7e] = PpOk [x7e; x62; x7e].
Proof. split; vm_compute; reflexivity. Qed.

(** -D wins over `parameter ... defaults to`; the first definition wins among
    equals; a `parameter` clause defines only what is not defined yet. *)
Theorem c20_define_precedence : forall defs params n,
  exists pv0, parse_defines defs = Ok pv0 /\
    pv_lookup (define_all pv0 params) n =
      match first_of n (map split_def_spec defs) with
      | Some v => Some v
      | None => first_of n params
      end.
Proof. exact define_precedence. Qed.

(** The `parameter` clause of the parse loop is [pv_define], i.e. one step of
    [define_all]. *)
Theorem c20_parameter_clause : forall fs ip jd st l n stk name val,
  ds_insec st = false -> read_line fs ip (ds_pv st) (ds_stack st) = (RLLine l n, stk) ->
  param_match l = Some (name, val) ->
  jd {| j_kind := JParamName; j_line := l; j_file := top_file stk; j_lineno := n; j_chain := top_chain stk; j_pv := ds_pv st |} = VAccept ->
  parse_step fs ip jd st = SGo {| ds_stack := stk; ds_pv := pv_define (ds_pv st) name val; ds_insec := false |}.
Proof. exact step_parameter. Qed.

(** title and attention texts are substituted (an undefined name is an error
    at that line, with the include chain); author strings are not looked at. *)
Theorem c20_title_attention_substituted : forall fs ip jd st l n stk t,
  st_inv fs (ds_stack st) -> ds_insec st = false ->
  read_line fs ip (ds_pv st) (ds_stack st) = (RLLine l n, stk) ->
  (strip_prefix kw_title l = Some t \/ (strip_prefix kw_title l = None /\ strip_prefix kw_attention l = Some t)) ->
  match preproc (ds_pv st) (trim_space t) with
  | PpOk _ => parse_step fs ip jd st = SGo {| ds_stack := stk; ds_pv := ds_pv st; ds_insec := false |}
  | PpUndefined ns => exists d, parse_step fs ip jd st = SErr d /\ d_kind d = EUndefined ns /\
                                d_pos d = Some (top_file stk, n) /\ d_chain d = top_chain stk
  | PpPanic => False
  end.
Proof. exact step_title_attention. Qed.

Theorem c20_author_untouched : forall fs ip jd st l n stk,
  ds_insec st = false -> read_line fs ip (ds_pv st) (ds_stack st) = (RLLine l n, stk) ->
  has_prefix l kw_author = true ->
  parse_step fs ip jd st = SGo {| ds_stack := stk; ds_pv := ds_pv st; ds_insec := false |}.
Proof. exact step_author. Qed.

(** `include` reads the named file as if its text stood in place of the
    clause: from the clause on, the reader delivers the logical lines of the
    included file — read to its end with everything it includes — followed by
    what it delivers from after the clause. *)
Theorem c20_include_is_splice : forall fs ip pv r ps r' c f ls,
  read_top fs ip pv r ps = TPush r' c ->
  read_file f fs ip pv c (r' :: ps) = (ls, FPopped) ->
  forall g, exists f',
    read_all (f' + g) fs ip pv (r :: ps) =
      (ls ++ fst (read_all g fs ip pv (r' :: ps)), snd (read_all g fs ip pv (r' :: ps))).
Proof. exact include_is_splice. Qed.

(** The stack of readers computes the recursive reading of files in general. *)
Theorem c20_stack_machine_is_recursive_inclusion : forall fs ip pv f r ps ls e,
  read_file f fs ip pv r ps = (ls, e) ->
  match e with
  | FFuel => True
  | FPopped => forall g, exists f', read_all (f' + g) fs ip pv (r :: ps) =
                                     (ls ++ fst (read_all g fs ip pv ps), snd (read_all g fs ip pv ps))
  | FStopped => exists f', read_all f' fs ip pv (r :: ps) = (ls, ROk tt)
  | FErr d => exists f', read_all f' fs ip pv (r :: ps) = (ls, RErr d)
  | FPanic => exists f', read_all f' fs ip pv (r :: ps) = (ls, RPanic)
  end.
Proof. exact read_all_refines_read_file. Qed.

(** The file is looked for next to the including file first, then in the -I
    directories in order: the one opened is the first in which the name
    exists. *)
Theorem c20_include_search_order : forall fs ip pv r ps r' c,
  sr_ok r -> read_top fs ip pv r ps = TPush r' c ->
  exists fname,
    (fname = s_dash /\ sr_file c = s_stdin) \/
    exists pre p post,
      path_dir (sr_file r) :: ip = pre ++ p :: post /\ Forall (not_there fs fname) pre /\
      sr_file c = path_join p fname /\
      ((exists content, fs_open fs (path_join p fname) = OFile content /\ sr_rest c = phys_lines content) \/
       fs_open fs (path_join p fname) = ODir).
Proof. exact include_search_order. Qed.

Theorem c20_include_not_found : forall fs ip pv r ps n r',
  sr_ok r -> read_top fs ip pv r ps = TErr ENotFound n r' ->
  exists fname, Forall (not_there fs fname) (path_dir (sr_file r) :: ip).
Proof. exact include_not_found. Qed.

(** Nesting deeper than ten files is refused rather than followed: an include
    is only ever followed from a stack of fewer than ten readers, at ten it is
    the error "include depth limit exceeded", and no reachable state holds
    more than ten. *)
Theorem c20_include_followed_below_ten : forall fs ip pv r ps r' c,
  sr_ok r -> read_top fs ip pv r ps = TPush r' c -> (length (r :: ps) < 10)%nat.
Proof. exact read_top_push_depth. Qed.

Theorem c20_include_depth_refused : forall fs ip pv r ps line,
  sr_ok r -> sr_isdir r = false -> (10 <= length (r :: ps))%nat ->
  (exists eof lines lineno rest,
     rl_loop (sr_rest r) [] (sr_lines r) (sr_lineno r) = LDone line eof lines lineno rest /\
     ignore_line (trim_space line) = false /\ has_prefix (trim_space line) kw_include = true) ->
  exists r', read_top fs ip pv r ps = TErr EDepth (sr_lineno r) r'.
Proof. exact include_depth_refused. Qed.

Theorem c20_include_depth_bounded : forall fs ip defs main jd pv stk st,
  parse_defines defs = Ok pv -> open_main fs ip main = ROk stk ->
  reach fs ip jd {| ds_stack := stk; ds_pv := pv; ds_insec := false |} st ->
  (1 <= length (ds_stack st) <= 10)%nat.
Proof. exact include_depth_bounded. Qed.

(** * Non-vacuity *)

Definition ex_pv : pvars := [([x70], [x61; x7e; x70; x7e; x62]); ([x71], [x56])].

(** single pass: the value of p holds ~p~ and is not expanded again; ~q~ is *)
Example c20_ex_single_pass : preproc ex_pv [x78; x20; x7e; x70; x7e; x20; x7e; x71; x7e; x20; x79] = PpOk [x78; x20; x61; x7e; x70; x7e; x62; x20; x56; x20; x79].
Proof. vm_compute. reflexivity. Qed.

(** leftmost, non-overlapping: in ~q~q~ the first occurrence wins, "q~" stays *)
Example c20_ex_leftmost : preproc ex_pv [x7e; x71; x7e; x71; x7e] = PpOk [x56; x71; x7e] /\ preproc ex_pv [x7e; x7e; x71; x7e; x7e] = PpOk [x7e; x56; x7e].
Proof. split; vm_compute; reflexivity. Qed.

Example c20_ex_undefined_named : preproc ex_pv [x7e; x71; x7e; x20; x7e; x6e; x6f; x70; x65; x7e; x20; x7e; x70; x7e; x20; x7e; x7a; x7e] = PpUndefined [[x7e; x6e; x6f; x70; x65; x7e]; [x7e; x7a; x7e]].
Proof. vm_compute. reflexivity. Qed.

(** -D p=1 -D p=2, parameter p defaults to 3, parameter r defaults to 4 *)
Example c20_ex_precedence :
  exists pv0, parse_defines [[x70; x3d; x31]; [x70; x3d; x32]] = Ok pv0 /\
    pv_lookup (define_all pv0 [([x70], [x33]); ([x72], [x34]); ([x72], [x35])]) [x70] = Some [x31] /\
    pv_lookup (define_all pv0 [([x70], [x33]); ([x72], [x34]); ([x72], [x35])]) [x72] = Some [x34].
Proof. eexists. vm_compute. repeat split. Qed.

(** a sibling of the including file shadows the same name under -I, and the
    lines of the included file stand in place of the clause *)
Definition ex_fs : fsys :=
  {| fs_files := [([x2f; x72; x2f; x74; x2f; x63; x6f; x6e; x66; x2f; x6d; x2e; x63; x66; x67], [x74; x69; x74; x6c; x65; x20; x6d; x30; x0a; x69; x6e; x63; x6c; x75; x64; x65; x20; x78; x2e; x63; x66; x67; x0a; x74; x69; x74; x6c; x65; x20; x6d; x32; x0a]);
                  ([x2f; x72; x2f; x74; x2f; x63; x6f; x6e; x66; x2f; x78; x2e; x63; x66; x67], [x74; x69; x74; x6c; x65; x20; x63; x6f; x6e; x66; x78; x0a]);
                  ([x2f; x72; x2f; x74; x2f; x6c; x69; x62; x2f; x78; x2e; x63; x66; x67], [x74; x69; x74; x6c; x65; x20; x6c; x69; x62; x78; x0a])];
     fs_dirs := [[x2f]; [x2f; x72]; [x2f; x72; x2f; x74]; [x2f; x72; x2f; x74; x2f; x63; x6f; x6e; x66]; [x2f; x72; x2f; x74; x2f; x6c; x69; x62]] |}.

Example c20_ex_sibling_first_and_splice :
  match open_main ex_fs [[x2f; x72; x2f; x74; x2f; x6c; x69; x62]; [x2f; x72; x2f; x74]] [x63; x6f; x6e; x66; x2f; x6d; x2e; x63; x66; x67] with
  | ROk stk => map ll_line (fst (read_all 50 ex_fs [[x2f; x72; x2f; x74; x2f; x6c; x69; x62]; [x2f; x72; x2f; x74]] [] stk))
  | _ => []
  end = [[x74; x69; x74; x6c; x65; x20; x6d; x30]; [x74; x69; x74; x6c; x65; x20; x63; x6f; x6e; x66; x78]; [x74; x69; x74; x6c; x65; x20; x6d; x32]].
Proof. vm_compute. reflexivity. Qed.
