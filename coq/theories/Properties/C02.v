(** C02 — Activation periods are judged independently and are always closed.

    [run_audition] is the audition round machine of Model/Audit.v (tied to
    pkg/cmd/audit.go by the correspondence check on every run); the period
    grammar [trace_run] of Model/AuditSpec.v is the plain meaning: per auditor

        ( Start  Report*  Report_end  Stop )*

    with every period judged by a fresh evaluator started in the table's start
    state, reports only inside periods, and exactly one end-of-period
    judgement, right before the Stop.  Statements only. *)
From Shk Require Import Base.Prelude Model.Value Model.Functions Model.Expr Model.Fsm Model.Audit
  Model.AuditSpec Proofs.AuditProofs.

(** For every configuration (any number of auditors, any activation
    conditions, modalities, assignments; member names distinct, as the parser
    guarantees), every auditor of it and every event history — any length, any
    interleaving of mood changes and signal samples, whatever variables the
    expressions mention: the outputs are well-formed periods, each judged
    independently. *)
Theorem c02_periods_independent_and_well_formed : forall c es ma os s stt,
  NoDup (map m_name (c_members c)) -> In ma (c_members c) ->
  run_audition c es = (os, s, stt) -> stt <> Panicked ->
  periods_well_formed (m_name ma) (tbl_of ma) os.
Proof. exact audition_periods_well_formed. Qed.

(** ... and when the history ends with the end of the play, every period has
    received its (single) end-of-period judgement and is closed. *)
Theorem c02_every_period_closed : forall c es ma os s,
  NoDup (map m_name (c_members c)) -> In ma (c_members c) ->
  ends_final es = true ->
  run_audition c es = (os, s, Running) ->
  all_periods_closed (m_name ma) (tbl_of ma) os.
Proof. exact audition_periods_closed. Qed.

(** Also when an evaluation error aborted the audit loop (after its initial
    round): the deferred final round closes every period, unless that final
    round itself hits an evaluation error. *)
Theorem c02_periods_closed_even_when_aborted : forall c es ma os s stt,
  NoDup (map m_name (c_members c)) -> In ma (c_members c) ->
  ends_final es = true ->
  (exists s1 o0, mood_change c (init_st c) false 0 "clear" = (s1, o0, Running)) ->
  run_audition c es = (os, s, stt) -> stt <> Panicked ->
  all_periods_closed (m_name ma) (tbl_of ma) os \/ final_round_aborted c.
Proof. exact audition_periods_closed_even_when_aborted. Qed.

(** A period is a maximal stretch over which the sampled condition holds:
    whenever the condition's dependencies are fresh, the auditor audits after
    the round iff the condition evaluated to true ... *)
Theorem c02_period_follows_condition : forall c s ts m s' o ms b,
  visit c false s ts m = (s', o, Running) ->
  get_ms (m_name m) (s_ms s) = Some ms ->
  has_deps s (m_cond m) = true -> truthy (eval (env_of s) (m_cond m)) = Some b ->
  exists ms', get_ms (m_name m) (s_ms s') = Some ms' /\ ms_auditing ms' = b.
Proof. exact visit_tracks_condition. Qed.

(** ... when they are not, the round does not concern the auditor ... *)
Theorem c02_stale_condition_is_a_no_op : forall c s ts m,
  has_deps s (m_cond m) = false -> visit c false s ts m = (s, [], Running).
Proof. exact visit_stale_condition. Qed.

(** ... and outside periods nothing is judged, computed or collected. *)
Theorem c02_nothing_outside_periods : forall c final s ts m ms s' o stt,
  get_ms (m_name m) (s_ms s) = Some ms -> ms_auditing ms = false ->
  wanted final s m <> Some (Some true) ->
  visit c final s ts m = (s', o, stt) ->
  o = [] /\ s_vals s' = s_vals s /\ s_act s' = s_act s /\ stt <> Panicked.
Proof. exact visit_outside_period. Qed.

(** Non-vacuity: a two-auditor configuration (one signal-only `eventually`
    auditor that audits throughout, one mood-based `always` auditor) and a
    history on which periods open, are judged, and are closed at the end. *)
Definition ex_tbl_eventually : fsm_table :=
  {| f_name := "eventually"; f_start := 0; f_states := ["checking"; "good"; "bad"]%string;
     f_labels := ["t"; "f"; "end"; "reset"]%string;
     f_edges := [[1; 0; 2; 0]; [1; 1; 1; 0]; [2; 2; 2; 0]]%nat |}.
Definition ex_cfg : acfg :=
  {| c_members := [ {| m_name := "al"; m_cond := EConst (VBool true); m_assigns := [];
                       m_expect := Some (ex_tbl_eventually, EBin OGt (EVar ("x", "s")%string) (EConst (VNum (100 # 1)))) |};
                    {| m_name := "bo"; m_cond := EBin OEq (EVar ("", "mood")%string) (EConst (VStr "red"));
                       m_assigns := [ {| as_target := "v"; as_mode := ATop; as_n := 2; as_expr := EVar ("x", "s")%string |} ];
                       m_expect := None |} ];
     c_watchers := [(("x", "s"), ["al"; "bo"]); (("", "mood"), ["bo"])]%string;
     c_init := [(("", "v")%string, VArr [])] |}.
Definition ex_events : list event :=
  [ESig (1 # 2) [(("x", "s")%string, VNum (1 # 1))]; EMood (1 # 1) "red";
   ESig (3 # 2) [(("x", "s")%string, VNum (2 # 1))]; EMood (2 # 1) "clear"; EFinal (5 # 2)].

Example c02_nonvacuous :
  let '(os, s, stt) := run_audition ex_cfg ex_events in
  stt = Running /\
  trace_run "al" (Some ex_tbl_eventually) PClosed (List.concat os) = Some PClosed /\
  List.length (filter (fun o => match o with OReport "al" _ _ => true | _ => false end) (List.concat os)) = 3%nat /\
  List.length (filter (fun o => match o with OStop "bo" => true | _ => false end) (List.concat os)) = 1%nat /\
  lookup_val ("", "v")%string (s_vals s) = VArr [VNum (2 # 1)].
Proof. vm_compute. repeat split; reflexivity. Qed.
