(** C02 (placeholder while the proofs are being written). *)
From Shk Require Import Base.Prelude Model.Audit.
