(** C08 — Each matching spotlight line yields exactly one correctly valued
    data point.

    [rows c cs items w (a, s)] are the rows (time, value) the models put into
    csv/<w>.<a>.<s>.csv: Model/Spotlight.v [detect] (detectSignals) on every
    line, Model/Audit.v's round machine on every sigEvent (checkEvent forwards
    each sample), the collector's fan-out (one row per watcher) — tied to
    pkg/cmd/{spotlight,audit,collector}.go by the correspondence check on
    every run.  The regexp engine and time.Parse are inputs ([fact]: does the
    pattern match, what is captured, what date is it); strconv.ParseFloat is
    the model function [parse_decimal], checked against strconv on every
    generated capture.

    Quantification: every audience configuration [c] (any number of
    observers per signal, auditors included), every cast [cs] (any number of
    roles, actors per role, signals of any kind and time-stamp group), every
    sequence [items] of lines (whatever they match, from whichever actor, in
    whatever interleaving = every pace), mood changes and the end of the play.
    Side conditions: the actor name is not empty and signal names are distinct
    within a role (the parser enforces both), a variable's watcher list holds
    each observer once (maybeAddWatcher), and the audition was not stopped by
    an auditor's evaluation error (status Running — always so for audiences
    made of observers only, [c08_observers_never_stop_the_play]).
    Statements only. *)
From Shk Require Import Base.Prelude Model.Value Model.Functions Model.Expr Model.Fsm Model.Audit
  Model.Spotlight Proofs.SpotlightProofs.
From Coq Require Import String QArith.
Open Scope list_scope.

(** The rows of a file are, in order, one per line of that actor that matches
    the signal and whose captures parse ([good_lines]: the points of those
    lines, in order of arrival): same number, same order. *)
Theorem c08_one_point_per_match : forall c cs items a p w os s,
  a <> ""%string ->
  NoDup (map p_name (parsers_of cs a)) -> In p (parsers_of cs a) ->
  NoDup (watchers_of (a, p_name p) (c_watchers c)) -> In w (watchers_of (a, p_name p) (c_watchers c)) ->
  play c cs items = (os, s, Running) ->
  rows c cs items w (a, p_name p) = spec_rows a p items
  /\ List.length (rows c cs items w (a, p_name p)) = List.length (good_lines a p items).
Proof. exact one_point_per_match. Qed.

(** ... and somebody who does not watch the signal gets nothing. *)
Theorem c08_only_watchers_get_rows : forall c cs items w x,
  ~ In w (watchers_of x (c_watchers c)) -> rows c cs items w x = [].
Proof. exact rows_of_stranger. Qed.

(** Every watcher of the signal gets every point, whoever it is: a plain
    observer, or an auditor (a member that only mentions the signal in an
    expression) - whether or not that auditor is auditing when the line
    arrives.  [c08_one_point_per_match] already holds for every watcher [w] of
    every configuration (auditors with any activation condition included);
    this says it without even the condition on the audition's status. *)
Theorem c08_every_watcher_gets_every_point : forall c cs items w1 w2 x,
  NoDup (watchers_of x (c_watchers c)) ->
  In w1 (watchers_of x (c_watchers c)) -> In w2 (watchers_of x (c_watchers c)) ->
  rows c cs items w1 x = rows c cs items w2 x.
Proof. exact all_watchers_same_rows. Qed.

(** The i-th row carries the i-th good line's datum: the captured text for an
    event, the number for a scalar, and for a delta the number minus the
    number of the previous good line — the very first delta being relative to
    0, as the code does (sink.lastVal starts at 0; the property's text leaves
    the first delta undefined). *)
Theorem c08_value_correct : forall c cs items a p w os s i t v,
  a <> ""%string ->
  NoDup (map p_name (parsers_of cs a)) -> In p (parsers_of cs a) ->
  NoDup (watchers_of (a, p_name p) (c_watchers c)) -> In w (watchers_of (a, p_name p) (c_watchers c)) ->
  play c cs items = (os, s, Running) ->
  nth_error (rows c cs items w (a, p_name p)) i = Some (t, v) ->
  exists ts r, nth_error (good_lines a p items) i = Some (ts, r) /\
    match p_kind p, r with
    | KEvent, RText txt => v = VStr txt
    | KScalar, RNum q => v = VNum q
    | KDelta, RNum q => v = VNum (q - prev_num 0 (good_lines a p items) i)
    | _, _ => False
    end.
Proof. exact value_correct. Qed.

(** The i-th row's time is the i-th good line's time stamp (seconds since the
    play started) ... *)
Theorem c08_time_correct : forall c cs items a p w os s i t v,
  a <> ""%string ->
  NoDup (map p_name (parsers_of cs a)) -> In p (parsers_of cs a) ->
  NoDup (watchers_of (a, p_name p) (c_watchers c)) -> In w (watchers_of (a, p_name p) (c_watchers c)) ->
  play c cs items = (os, s, Running) ->
  nth_error (rows c cs items w (a, p_name p)) i = Some (t, v) ->
  exists ts r l, nth_error (good_lines a p items) i = Some (ts, r) /\ t = secs ts /\
    In l (lines_of a items) /\ good_point p l = Some (ts, r).
Proof. exact time_correct. Qed.

(** ... which is the reception instant for ts_now, the play start plus the
    captured seconds for ts_deltasecs, and the captured date (minus the play
    start) for ts_rfc3339 / ts_log. *)
Theorem c08_time_by_group : forall p l ts r,
  good_point p l = Some (ts, r) ->
  let f := fact_of l (p_name p) in
  p_sink p = true /\ f_match f = true /\
  match p_group p with
  | GNow => ts = l_now l
  | GDeltaSecs => exists q, parse_decimal (f_ts f) = Some q /\ ts = trunc_ns q
  | GRfc3339 | GLog => f_date f = Some ts
  end.
Proof. exact good_point_time. Qed.

(** A line whose captures for [p] do not parse (or that does not match [p])
    leaves the file of [p] as if the line had never been printed — and the
    play goes on: [detect] is total, the lines after it are processed as
    before.  (The file of another signal [p'] only depends on [good_point p'],
    i.e. on its own facts: theorem [c08_one_point_per_match] for [p'].) *)
Theorem c08_unparsable_drops_point_only : forall c cs items1 items2 a p l w os s os' s',
  a <> ""%string ->
  NoDup (map p_name (parsers_of cs a)) -> In p (parsers_of cs a) ->
  NoDup (watchers_of (a, p_name p) (c_watchers c)) -> In w (watchers_of (a, p_name p) (c_watchers c)) ->
  good_point p l = None ->
  play c cs (items1 ++ ILine a l :: items2) = (os, s, Running) ->
  play c cs (items1 ++ items2) = (os', s', Running) ->
  rows c cs (items1 ++ ILine a l :: items2) w (a, p_name p) = rows c cs (items1 ++ items2) w (a, p_name p).
Proof. exact unparsable_drops_point_only. Qed.

(** What a line yields for [p] depends on [p]'s own facts only: a malformed
    capture of another signal on the same line changes nothing for [p]. *)
Theorem c08_other_signals_unaffected : forall p l l',
  l_now l' = l_now l -> fact_of l' (p_name p) = fact_of l (p_name p) -> good_point p l' = good_point p l.
Proof. exact good_point_own_facts. Qed.

(** A line that matches no watched signal of its actor's role yields nothing
    at all: the audition sees the same history as without it. *)
Theorem c08_no_match_no_point : forall cs lv a l rest,
  (forall p, In p (parsers_of cs a) -> p_sink p = true -> f_match (fact_of l (p_name p)) = false) ->
  feed cs lv (ILine a l :: rest) = feed cs lv rest.
Proof. exact no_match_no_event. Qed.

(** With observers only (no `expects`, `computes`, `collects`) nothing can
    stop the audition: the side condition "status Running" above is vacuous. *)
Theorem c08_observers_never_stop_the_play : forall c cs items,
  c_members c = [] -> snd (play c cs items) = Running.
Proof. exact observers_never_stop. Qed.

(** * Non-vacuity *)

Open Scope string_scope.

Definition ex_load : parser := {| p_name := "load"; p_kind := KDelta; p_group := GDeltaSecs; p_sink := true |}.
Definition ex_parsers : list parser :=
  [ ex_load;
    {| p_name := "state"; p_kind := KEvent; p_group := GNow; p_sink := true |};
    {| p_name := "temp"; p_kind := KScalar; p_group := GRfc3339; p_sink := false |} ].
Definition ex_cast : cast := [("db1", ex_parsers); ("db2", ex_parsers)].
Definition ex_cfg : acfg :=
  {| c_members := [];
     c_watchers := [(("db1", "load"), ["ann"; "bob"]); (("db1", "state"), ["ann"]); (("db2", "load"), ["bob"])];
     c_init := [] |}.
Definition fct (ts v : string) : Spotlight.fact := {| f_match := true; f_ts := ts; f_val := v; f_date := None |}.
(** db1 prints loads 3, 3, "1e" (malformed), 5.5 and a state; db2 a load in
    between; one line matches nothing. *)
Definition ex_items : list item :=
  [ ILine "db1" {| l_now := 1000; l_facts := [("load", fct "1.5" "3")] |};
    ILine "db2" {| l_now := 1001; l_facts := [("load", fct "1.75" "10")] |};
    ILine "db1" {| l_now := 1002; l_facts := [("load", fct "2" "3.0"); ("state", fct "" "up")] |};
    IMood (5 # 2) "red";
    ILine "db1" {| l_now := 1003; l_facts := [] |};
    ILine "db1" {| l_now := 1004; l_facts := [("load", fct "3" "1e")] |};
    ILine "db1" {| l_now := 1005; l_facts := [("load", fct "x" "4")] |};
    ILine "db1" {| l_now := 1006; l_facts := [("load", fct "4.25" "5.5"); ("temp", fct "" "20")] |};
    IFinal 5 ].

Definition q3 (v : Q * value) : Q * value :=
  (Qred (fst v), match snd v with VNum q => VNum (Qred q) | x => x end).

Example c08_ex_delta_rows :
  map q3 (rows ex_cfg ex_cast ex_items "bob" ("db1", "load")) =
  [ (3 # 2, VNum 3); (2, VNum 0); (17 # 4, VNum (5 # 2)) ]%Q.
Proof. vm_compute. reflexivity. Qed.

Example c08_ex_both_watchers_same :
  rows ex_cfg ex_cast ex_items "ann" ("db1", "load") = rows ex_cfg ex_cast ex_items "bob" ("db1", "load").
Proof. vm_compute. reflexivity. Qed.

Example c08_ex_event_row :
  rows ex_cfg ex_cast ex_items "ann" ("db1", "state") = [ (secs 1002, VStr "up") ].
Proof. vm_compute. reflexivity. Qed.

Example c08_ex_other_actor :
  map q3 (rows ex_cfg ex_cast ex_items "bob" ("db2", "load")) = [ (7 # 4, VNum 10) ]%Q.
Proof. vm_compute. reflexivity. Qed.

(** A blank line (empty once trimmed) and a pattern that also matches the
    empty string, like the shipped whole-line event patterns: one point, whose
    text is empty. *)
Example c08_ex_empty_line_empty_text :
  rows ex_cfg ex_cast
       [ ILine "db1" {| l_now := 7; l_facts := [("state", fct "" "")] |};
         ILine "db1" {| l_now := 8; l_facts := [("state", fct "" "up")] |} ]
       "ann" ("db1", "state")
  = [ (secs 7, VStr ""); (secs 8, VStr "up") ].
Proof. vm_compute. reflexivity. Qed.

(** Siblings of one role keep their own previous sample (sink.lastVal is per
    actor AND signal, [lasts] is keyed by both): interleaved totals 10, 1000,
    20, 1005 of db1 / db2 give deltas 10, 10 for db1 and 1000, 5 for db2. *)
Example c08_ex_siblings_own_last_value :
  let its := [ ILine "db1" {| l_now := 1; l_facts := [("load", fct "0.5" "10")] |};
               ILine "db2" {| l_now := 2; l_facts := [("load", fct "0.75" "1000")] |};
               ILine "db1" {| l_now := 3; l_facts := [("load", fct "1.5" "20")] |};
               ILine "db2" {| l_now := 4; l_facts := [("load", fct "1.75" "1005")] |} ] in
  map q3 (rows ex_cfg ex_cast its "bob" ("db1", "load")) = [ (1 # 2, VNum 10); (3 # 2, VNum 10) ]%Q
  /\ map q3 (rows ex_cfg ex_cast its "bob" ("db2", "load")) = [ (3 # 4, VNum 1000); (7 # 4, VNum 5) ]%Q.
Proof. vm_compute. split; reflexivity. Qed.

(** An auditor with a conditional activation period (only while the load's
    delta is >= 3), sole watcher of db2's load: it gets the points of the lines
    that arrive outside its period and of the line that opens it, too. *)
Definition ex_cfg_auditor : acfg :=
  {| c_members := [ {| m_name := "cand";
                       m_cond := EBin OGe (EVar ("db2", "load")) (EConst (VNum 3));
                       m_assigns := []; m_expect := None |} ];
     c_watchers := [(("db2", "load"), ["cand"])];
     c_init := [] |}.
Example c08_ex_auditor_outside_its_period :
  let its := [ ILine "db2" {| l_now := 1; l_facts := [("load", fct "1" "1")] |};
               ILine "db2" {| l_now := 2; l_facts := [("load", fct "2" "3")] |};
               ILine "db2" {| l_now := 3; l_facts := [("load", fct "3" "7")] |};
               ILine "db2" {| l_now := 4; l_facts := [("load", fct "4" "8")] |} ] in
  map q3 (rows ex_cfg_auditor ex_cast its "cand" ("db2", "load"))
  = [ (1, VNum 1); (2, VNum 2); (3, VNum 4); (4, VNum 1) ]%Q
  /\ snd (play ex_cfg_auditor ex_cast its) = Running.
Proof. vm_compute. split; reflexivity. Qed.

Example c08_ex_premises_hold :
  snd (play ex_cfg ex_cast ex_items) = Running
  /\ List.length (good_lines "db1" ex_load ex_items) = 3%nat
  /\ List.length (lines_of "db1" ex_items) = 6%nat.
Proof. vm_compute. repeat split; reflexivity. Qed.

(** the line with the malformed number and the line with the malformed time
    stamp yield no point for "load" *)
Example c08_ex_unparsable :
  good_point ex_load {| l_now := 1004; l_facts := [("load", fct "3" "1e")] |} = None
  /\ good_point ex_load {| l_now := 1005; l_facts := [("load", fct "x" "4")] |} = None.
Proof. vm_compute. split; reflexivity. Qed.
