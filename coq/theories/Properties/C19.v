(** C19 — The plot script shows exactly the data that was collected.

    Statements only.  What they are about: Model/Plot.v is a line-by-line
    transcription of subPlots / plot / assemble (and of the audition's mood
    bookkeeping); Model/PlotSpec.v states the property as filters over the
    collected data.  [c19_plot_matches_spec] therefore relates two descriptions
    of the same loops: it rules out slips in counters, skips and orders for
    every cast, audience, mood and act list of any length, but it says nothing
    about plot.go by itself.  The tie to the source is the per-run
    correspondence (checks/c19.py): the real subPlots is run on generated
    collected states and its output compared with the model and, separately,
    with the filters below.  Most of the detection value is in that tie. *)
From Shk Require Import Base.Prelude Model.Plot Model.PlotSpec Proofs.PlotProofs.
From Coq Require Import String.
Local Open Scope string_scope.
Local Open Scope list_scope.
Local Open Scope Z_scope.

(** For every collected state and window the generated script is the one the
    statement describes. *)
Theorem c19_plot_matches_spec : forall d minT maxT, plot_script d minT maxT = spec_script d minT maxT.
Proof. exact plot_matches_spec. Qed.

(** "on one time axis covering [MinTime, MaxTime] with a 5 % margin": exactly
    one x range, and (in twentieths of a microsecond) it extends the window by
    a twentieth of its length on each side. *)
Theorem c19_one_time_axis_with_margin : forall d mn mx,
  xranges (plot_script d mn mx) = [(20 * mn - (mx - mn), 20 * mx + (mx - mn))].
Proof. exact xranges_script. Qed.

(** The result's range covers what was collected, starts at or before 0 and
    spans at least one second. *)
Theorem c19_range_covers_collected : forall raw,
  let '(mn, mx) := assemble_range raw in
  mn <= 0 /\ mn + 1000000 <= mx /\
  (forall a b, raw = Some (a, b) -> a <= b -> mn <= a /\ b <= mx).
Proof. exact assemble_range_ok. Qed.

(** "an action box with one lane per actor that performed at least one action
    (in cast order)": the i-th such actor is on lane i+1; nobody else has one. *)
Theorem c19_action_lanes : forall d mn mx,
  lanes_of (plot_script d mn mx) = mapi (fun i nm => (nm, Z.of_nat i + 1)) (lane_names d).
Proof. exact lanes_script. Qed.

(** "then one box per audience member that received data and is not marked
    `only helps` (in declaration order) holding one curve per watched signal or
    variable that received data ... followed by the member's audit verdicts". *)
Theorem c19_member_boxes : forall d mn mx,
  boxes_of (plot_script d mn mx) = map box_view (shown_members d).
Proof. exact boxes_script. Qed.

(** "events as labelled points on their own lane, scalars as lines": a curve is
    drawn with the event style iff its signal is an event signal, and two event
    curves of a box never share a lane. *)
Theorem c19_curve_styles : forall m i v,
  nth_error (shown_vars m) i = Some v ->
  nth_error (spec_curves m) i =
  Some {| k_file := csv_file (m_name m) (w_actor v) (w_sig v);
          k_style := if w_events v then SEvent (lane_of (firstn i (shown_vars m))) (lane_of (firstn i (shown_vars m))) else SLine;
          k_title := curve_title (w_actor v) (w_sig v) |}.
Proof. exact curve_styles. Qed.

Theorem c19_events_on_their_own_lane : forall vs i j vi,
  (i < j)%nat -> nth_error vs i = Some vi -> w_events vi = true -> (j <= List.length vs)%nat ->
  lane_of (firstn i vs) < lane_of (firstn j vs).
Proof. exact event_lanes_increase. Qed.

(** "Every non-clear mood period appears as a background band": the audition
    records exactly the maximal non-clear stretches ... *)
Theorem c19_mood_periods_recorded : forall evs final, mood_book evs final = spec_mood_periods evs final.
Proof. exact mood_book_spec. Qed.

(** ... and the script has one band per recorded period that meets the window,
    clipped to it — hence one per period when all of them meet it. *)
Theorem c19_mood_bands : forall d mn mx,
  let lo := 20 * mn - (mx - mn) in
  let hi := 20 * mx + (mx - mn) in
  bands_of (plot_script d mn mx) =
  map (fun p => (clip_start lo (p_start p), clip_end hi (p_end p), p_mood p)) (filter (visible lo hi) (c_moods d)).
Proof. exact bands_script. Qed.

Theorem c19_every_mood_period_a_band : forall d mn mx,
  (forall p, In p (c_moods d) -> visible (20 * mn - (mx - mn)) (20 * mx + (mx - mn)) p = true) ->
  map (fun b => snd b) (bands_of (plot_script d mn mx)) = map p_mood (c_moods d).
Proof. exact bands_all. Qed.

(** "every act start after the first as a vertical line" (inside the window). *)
Theorem c19_act_lines : forall d mn mx,
  lines_of (plot_script d mn mx) = filter (fun ts => 20 * mn - (mx - mn) <=? 20 * ts) (map fst (tl (c_acts d))).
Proof. exact lines_script. Qed.

Theorem c19_every_later_act_a_line : forall d mn mx,
  (forall ts, In ts (map fst (tl (c_acts d))) -> 20 * mn - (mx - mn) <= 20 * ts) ->
  lines_of (plot_script d mn mx) = map fst (tl (c_acts d)).
Proof. exact lines_all. Qed.

(** "a play with a repeated section additionally gets the same plot zoomed on
    its last repetitions": the second script exists iff the repeated act
    started; its window starts at the next-to-last start of that act (the only
    one if it started once); it is the same script function on the same data;
    runme.gp loads it only then. *)
Theorem c19_zoom_iff_repeat : forall d raw r h,
  let o := plot_all d raw r h in
  let d' := {| c_actors := c_actors d; c_members := c_members d; c_moods := c_moods d;
               c_acts := c_acts d; c_appmax := o_max o |} in
  o_repeat o = spec_repeat_start r (c_acts d) /\
  o_main o = plot_script d' (o_min o) (o_max o) /\
  o_last o = option_map (fun s => plot_script d' s (o_max o)) (spec_repeat_start r (c_acts d)) /\
  (forall x, In x (o_run o) -> x = RLoad true -> spec_repeat_start r (c_acts d) <> None).
Proof. exact plot_all_zoom. Qed.

Theorem c19_zoom_same_boxes : forall d s mn mx,
  lanes_of (plot_script d s mx) = lanes_of (plot_script d mn mx) /\
  boxes_of (plot_script d s mx) = boxes_of (plot_script d mn mx).
Proof. exact zoom_same_boxes. Qed.

(** Non-vacuity: a cast of three (one never acts), four members (one without
    data, one `only helps`), two mood periods, three acts with a repeat. *)
Definition ex_data : collected :=
  {| c_actors := [ {| a_name := bs "bob"; a_has := true |}; {| a_name := bs "al"; a_has := false |};
                   {| a_name := bs "cy"; a_has := true |} ];
     c_members :=
       [ {| m_name := bs "o1"; m_ylabel := bs "y"; m_noplot := false; m_has := true;
            m_vars := [ {| w_actor := bs "bob"; w_sig := bs "ev"; w_events := true; w_has := true |};
                        {| w_actor := bs "al"; w_sig := bs "sc"; w_events := false; w_has := false |};
                        {| w_actor := bs "cy"; w_sig := bs "ev"; w_events := true; w_has := true |} ];
            m_assigns := false; m_active := []; m_expects := None; m_audit_has := false |};
         {| m_name := bs "o2"; m_ylabel := []; m_noplot := false; m_has := false; m_vars := [];
            m_assigns := false; m_active := []; m_expects := None; m_audit_has := false |};
         {| m_name := bs "o3"; m_ylabel := []; m_noplot := true; m_has := true;
            m_vars := [ {| w_actor := []; w_sig := bs "x"; w_events := false; w_has := true |} ];
            m_assigns := true; m_active := bs "true"; m_expects := None; m_audit_has := false |};
         {| m_name := bs "o4"; m_ylabel := []; m_noplot := false; m_has := true; m_vars := [];
            m_assigns := false; m_active := bs "t > 1"; m_expects := Some (bs "always", bs "t < 9");
            m_audit_has := true |} ];
     c_moods := [ {| p_start := Fin 100000; p_end := Fin 300000; p_mood := bs "red" |};
                  {| p_start := Fin 5000000; p_end := Fin 6000000; p_mood := bs "blue" |} ];
     c_acts := [(0, 1); (200000, 2); (400000, 3); (600000, 2); (800000, 3)];
     c_appmax := 0 |}.

Example c19_nonvacuous :
  let o := plot_all ex_data (Some (50000, 950000)) 2 24 in
  o_min o = 0 /\ o_max o = 1000000 /\ o_repeat o = Some 200000 /\
  lanes_of (o_main o) = [(bs "bob", 1); (bs "cy", 2)] /\
  map fst (boxes_of (o_main o)) =
    [bs "observer o1"; bs "observer o4" ++ nl ++ bs "audits, only when t > 1" ++ nl ++ bs "expects always: t < 9"] /\
  map (fun b => List.length (snd b)) (boxes_of (o_main o)) = [2%nat; 2%nat] /\
  bands_of (o_main o) = [(BFirst 100000, BFirst 300000, bs "red")] /\
  lines_of (o_main o) = [200000; 400000; 600000; 800000] /\
  option_map lines_of (o_last o) = Some [200000; 400000; 600000; 800000] /\
  option_map xranges (o_last o) = Some [(20 * 200000 - 800000, 20 * 1000000 + 800000)].
Proof. vm_compute. repeat split. Qed.

Example c19_nonvacuous_moods :
  mood_book [(100, bs "red"); (200, bs "red"); (300, bs "blue"); (400, bs "clear"); (500, bs "green")] 700
  = [ {| p_start := Fin 100; p_end := Fin 300; p_mood := bs "red" |};
      {| p_start := Fin 300; p_end := Fin 400; p_mood := bs "blue" |};
      {| p_start := Fin 500; p_end := Fin 700; p_mood := bs "green" |} ].
Proof. vm_compute. reflexivity. Qed.
