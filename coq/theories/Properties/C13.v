(** C13 — an actor's commands run in that actor's own directory and
    environment.  Statements only; every proof is [exact <lemma>].

    What is about the code: [prepare_script] / [prefix_lines] transcribe
    prepareScript byte for byte, [cast_of] the role / cast sections and the
    multi-actor expansion, [work_dir] the directory prepareDirs assigns; they
    are compared with the real functions on every run (Corr/C13.v).
    What is about the mini-shell: [exec_prefix] is this development's reading
    of what a shell does with the lines before the user's command (cd,
    assignments with $NAME, `set -a`, `exec >>file 2>&1`, and two commands that
    do not change the shell's state).  bash itself is outside Coq; that it
    agrees with [exec_prefix] on these scripts is observed by running them.

    Outside the claim (the hypotheses [dir_ok], [name_ok], [wf_item] say so):
    - a work directory containing a single quote (breaks `cd '...'`), or, for
      actions and cleanups, any character the shell treats specially: the
      `echo output redirected to <dir>/<name>.log` line is not quoted;
    - action names that are not plain shell words (the parser accepts
      symbols such as `>` or `$` in identifiers);
    - `with` strings that are not NAME=word lists (words made of letters,
      digits, bytes >= 0x80 and % + , - . / : = @ _) separated by a blank or by
      "; " - in particular values with quotes or $-references (the latter are
      interpreted by [exec_prefix] and compared with bash on generated cases,
      but not covered by the theorems below);
    - a `with` clause that itself assigns TMPDIR, HOME or i wins over the
      prefix (the statements are conditional on that). *)
From Shk Require Import Base.Prelude Model.Dirs Model.Script Proofs.DirsProofs Proofs.ScriptProofs.
From Coq Require Import Strings.String.

(** At the point where the user's command starts, whatever process invoked the
    script ([caller]: any current directory, any environment, any stdout and
    stderr): the current directory is the work directory; TMPDIR is the work
    directory and HOME its parent; every variable of the `with` clause holds
    its (last) value and is exported, and so is everything else the command
    assigns (`set -a`); variables neither the prefix nor the clause assigns
    are the caller's; stdout and stderr append to <workDir>/<name>.log iff
    there is a redirection, and are otherwise the caller's (the pipe of the
    signal filters for a spotlight). *)
Theorem c13_state_at_command : forall caller shell workDir name ws redirect,
  dir_ok workDir redirect -> (redirect = true -> name_ok name) -> Forall wf_item ws ->
  exists st,
    exec_prefix caller (prefix_lines shell workDir name (render_with ws) redirect) = Some st /\
    state_ok caller st workDir name ws redirect.
Proof. exact command_state. Qed.

(** For every configuration the cast model accepts - any roles, extended or
    shared between any number of actors, single and `name* play N role` lines
    with any N - and for every actor of it and every script
    prepareActionCommands creates for that actor (each action of its role,
    inherited ones included, the spotlight, the cleanup): the script is the
    prefix followed by the command; the state at the command is as above for
    *that actor's* directory <runDir>/artifacts/<actor> and with clause; and
    the k-th (from 0) actor of a multi-actor line has i = the decimal of k
    (unless its own clause assigns i). *)
Theorem c13_every_actor_every_script : forall rds ads actors,
  cast_of rds ads = Ok actors ->
  exists roles, resolve_roles [] rds = Ok roles /\
  forall na, In na actors ->
  exists d, In d ads /\ from_def roles d (snd na) /\
  forall ws, Forall wf_item ws -> ad_env d = render_with ws ->
  forall caller shell runDir s, In s (actor_scripts (snd na)) ->
    let a := snd na in
    let wd := work_dir runDir (a_name a) in
    let redirect := kind_redirect (s_kind s) in
    dir_ok wd redirect -> (redirect = true -> name_ok (s_name s)) ->
    script_text shell runDir a s = render_lines (script_prefix shell runDir a s ++ [s_cmd s]) /\
    exists st,
      exec_prefix caller (script_prefix shell runDir a s) = Some st /\
      state_ok caller st wd (s_name s) (actor_clause a ws) redirect /\
      (forall n v, last_assigned n ws = Some v -> lookup_var n st = Some (v, true)) /\
      (forall k, a_index a = Some k -> last_assigned (bs "i") ws = None ->
                 lookup_var (bs "i") st = Some (itoa k, true) /\ atoi (itoa k) = Some k).
Proof. exact every_actor_every_script. Qed.

(** The multi-actor expansion loses nobody: `name* play n role` yields, for
    every k < n, an actor called name<k+1> that is the k-th of that line. *)
Theorem c13_multi_actor_complete : forall roles ds acc acc' d,
  expand_cast roles acc ds = Ok acc' -> In d ds ->
  forall n k, ad_mul d = Some n -> (k < n)%nat ->
  exists na, In na acc' /\ fst na = multi_name (ad_name d) (N.of_nat k) /\ from_def roles d (snd na).
Proof. exact expand_cast_complete. Qed.

(** A role that extends another has the parent's actions, then its own. *)
Theorem c13_extended_role : forall known d p r,
  rd_extends d = Some p -> resolve_role known d = Ok r ->
  exists pr, alookup p known = Some pr /\
    r_actions r = r_actions pr ++ rd_actions d /\
    r_spot r = or_else (rd_spot d) (r_spot pr) /\ r_clean r = or_else (rd_clean d) (r_clean pr).
Proof. exact resolve_role_extends. Qed.

(** HOME = <workDir>/.. denotes <runDir>/artifacts, strictly inside the run
    directory (TMPDIR = <runDir>/artifacts/<actor> is by its form). *)
Theorem c13_home_inside_run_dir : forall runDir a, run_dir_ok runDir -> actor_name_ok a ->
  let home := work_dir runDir a ++ bs "/.." in
  clean (path_of_bytes home) = path_of_bytes (runDir ++ bs "/artifacts") /\
  strictly_inside (path_of_bytes runDir) (clean (path_of_bytes home)) = true.
Proof. exact home_inside. Qed.

(** Invoked from another actor's action, from the play, or by hand: the
    directory, the export flag, every variable the prefix or the clause
    assigns and (with a redirection) the output are the same; without a
    redirection the output is the invoker's. *)
Theorem c13_prefix_ignores_caller : forall c1 c2 shell workDir name ws redirect,
  dir_ok workDir redirect -> (redirect = true -> name_ok name) -> Forall wf_item ws ->
  exists s1 s2,
    exec_prefix c1 (prefix_lines shell workDir name (render_with ws) redirect) = Some s1 /\
    exec_prefix c2 (prefix_lines shell workDir name (render_with ws) redirect) = Some s2 /\
    cwd s1 = cwd s2 /\ allexport s1 = allexport s2 /\
    (forall n, assigns n ws -> lookup_var n s1 = lookup_var n s2) /\
    (redirect = true -> out s1 = out s2 /\ err s1 = err s2) /\
    (redirect = false -> out s1 = out c1 /\ err s1 = err c1 /\ out s2 = out c2 /\ err s2 = err c2).
Proof. exact prefix_ignores_caller. Qed.

(** The conditions on the work directory follow from conditions on the run
    directory and the actor's name. *)
Theorem c13_work_dir_ok : forall runDir a redirect,
  is_abs runDir = true -> plain_text runDir = true -> plain_word a = true -> dir_ok (work_dir runDir a) redirect.
Proof. exact work_dir_ok. Qed.

(** Non-vacuity: a cast with an extended role shared by a single actor and a
    3-actor line; the third actor's action invoked from a foreign directory
    with stale values of everything. *)
Definition ex_roles : list role_def :=
  [ {| rd_name := bs "road"; rd_extends := None; rd_actions := [(bs "car", bs "echo rides")];
       rd_spot := Some (bs "tail -F car.log"); rd_clean := None |};
    {| rd_name := bs "light"; rd_extends := Some (bs "road"); rd_actions := [(bs "red", bs "touch ../$road/blocked")];
       rd_spot := None; rd_clean := Some (bs "rm -f blocked") |} ].
Definition ex_cast : list actor_def :=
  [ {| ad_name := bs "elm"; ad_mul := None; ad_role := bs "road"; ad_env := [] |};
    {| ad_name := bs "porch"; ad_mul := Some 3%nat; ad_role := bs "lights"; ad_env := bs "road=elm; port=2625" |} ].
Definition ex_caller : sh_state :=
  start_state (bs "/somewhere/else") [(bs "HOME", bs "/root"); (bs "i", bs "77"); (bs "road", bs "stale"); (bs "PATH", bs "/bin")]
              (TGiven (bs "pipe")) (TGiven (bs "pipe")).

Example c13_nonvacuous :
  exists actors a s st,
    cast_of ex_roles ex_cast = Ok actors /\ List.length actors = 4%nat /\
    alookup (bs "porch3") actors = Some a /\ In s (actor_scripts a) /\ s_name s = bs "red" /\
    List.length (actor_scripts a) = 4%nat /\
    exec_prefix ex_caller (script_prefix (bs "/bin/bash") (bs "/out/20260930") a s) = Some st /\
    cwd st = bs "/out/20260930/artifacts/porch3" /\
    env_of st = [(bs "port", bs "2625"); (bs "road", bs "elm"); (bs "i", bs "2");
                 (bs "HOME", bs "/out/20260930/artifacts/porch3/.."); (bs "TMPDIR", bs "/out/20260930/artifacts/porch3");
                 (bs "PWD", bs "/out/20260930/artifacts/porch3"); (bs "OLDPWD", bs "/somewhere/else"); (bs "PATH", bs "/bin")] /\
    out st = TAppend (bs "/out/20260930/artifacts/porch3/red.log").
Proof.
  eexists. eexists. eexists. eexists.
  split; [vm_compute; reflexivity|]. split; [reflexivity|].
  split; [vm_compute; reflexivity|]. split; [right; left; reflexivity|].
  split; [reflexivity|]. split; [reflexivity|].
  split; [vm_compute; reflexivity|]. vm_compute. repeat split.
Qed.

(** ... and the hypotheses are satisfiable: that directory, name and clause. *)
Example c13_hypotheses_satisfiable :
  dir_ok (bs "/out/20260930/artifacts/porch3") true /\ name_ok (bs "red") /\
  Forall wf_item [ {| w_semi := false; w_name := bs "road"; w_val := bs "elm" |};
                   {| w_semi := true; w_name := bs "port"; w_val := bs "2625" |} ] /\
  render_with [ {| w_semi := false; w_name := bs "road"; w_val := bs "elm" |};
                {| w_semi := true; w_name := bs "port"; w_val := bs "2625" |} ] = bs "road=elm; port=2625".
Proof.
  repeat split; try reflexivity; try (intros _; reflexivity).
  repeat constructor; reflexivity.
Qed.

(** Outside the claim, for the record: the mini-shell refuses the prefix when
    the work directory contains a single quote. *)
Example c13_quote_outside :
  exec_prefix ex_caller (prefix_lines (bs "/bin/bash") (bs "/it's/artifacts/a") (bs "x") [] true) = None.
Proof. vm_compute. reflexivity. Qed.
