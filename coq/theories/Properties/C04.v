(** C04 — scenes run in script order, behind barriers, never ahead of the
    tempo, and the recorded times bracket what the command experienced.
    Statements only; every proof is [exact <lemma>].

    The statements are about the timed prompter model [timed_play]: for EVERY
    list of act instances (any number of acts, scene groups, concurrent lines,
    steps), every waitUntil (tempo), every duration and every non-negative
    latency of every action instance, scene start, barrier and act start
    ([ptime_ok]: the OS scheduling and the Go runtime).  An event [e] carries
    its position (act instance, scene = column group, line, step), the instants
    [e_gstart]/[e_gend] the prompter records (CSV row: start, duration =
    gend - gstart) and [e_cstart]/[e_cend], what the command itself
    experienced.
    Partial (DESIGN.md section 6, C04): that the real `wg.Wait`, `time.After`
    and `exec` behave as the model's max/+ is observed end-to-end on every run
    of the check (Corr/C04.v), not proved. *)
From Shk Require Import Base.Prelude Model.Prompt Proofs.PromptProofs.
Open Scope Z_scope.

(** Acts are performed one after another: everything of an earlier act has
    ended before a later act starts. *)
Theorem c04_acts_sequential : forall tm t0 acts e1 e2,
  ptime_ok tm -> In e1 (timed_play tm t0 acts) -> In e2 (timed_play tm t0 acts) ->
  (e_act e1 < e_act e2)%nat ->
  e_gend e1 <= e_act_start e2 /\ e_act_start e2 <= e_gstart e2.
Proof. exact acts_sequential. Qed.

(** No action of a later scene group starts before every action of every
    earlier group has finished (the barrier), inside an act and across acts. *)
Theorem c04_groups_sequential_with_barrier : forall tm t0 acts e1 e2,
  ptime_ok tm -> In e1 (timed_play tm t0 acts) -> In e2 (timed_play tm t0 acts) ->
  ((e_act e1 < e_act e2)%nat \/ (e_act e1 = e_act e2 /\ (e_scene e1 < e_scene e2)%nat)) ->
  e_gend e1 <= e_gstart e2.
Proof. exact groups_sequential_with_barrier. Qed.

(** Inside a group each line's actions run in the listed order. *)
Theorem c04_line_order : forall tm t0 acts e1 e2,
  ptime_ok tm -> In e1 (timed_play tm t0 acts) -> In e2 (timed_play tm t0 acts) ->
  e_act e1 = e_act e2 -> e_scene e1 = e_scene e2 -> e_line e1 = e_line e2 -> (e_step e1 < e_step e2)%nat ->
  e_gend e1 <= e_gstart e2.
Proof. exact line_order. Qed.

(** No action starts earlier than its scene's waitUntil (column index x
    tempo) after its act started ... *)
Theorem c04_not_ahead_of_tempo : forall tm t0 acts e,
  ptime_ok tm -> In e (timed_play tm t0 acts) ->
  t0 <= e_act_start e /\ e_act_start e + e_wait e <= e_gstart e.
Proof. exact not_ahead_of_tempo. Qed.

(** ... where [e_wait] is indeed the waitUntil of the scene the action belongs to. *)
Theorem c04_wait_is_scene_wait : forall tm t0 acts e,
  In e (timed_play tm t0 acts) ->
  exists ac sc, nth_error acts (e_act e) = Some ac /\ nth_error ac (e_scene e) = Some sc /\ e_wait e = waitUntil sc.
Proof. exact wait_is_scene_wait. Qed.

(** The recorded interval [start, start + duration] contains the interval the
    command itself experienced. *)
Theorem c04_report_brackets_command : forall tm t0 acts e,
  ptime_ok tm -> In e (timed_play tm t0 acts) ->
  e_gstart e <= e_cstart e /\ e_cstart e <= e_cend e /\ e_cend e <= e_gstart e + (e_gend e - e_gstart e).
Proof. exact report_brackets_command. Qed.

(** Non-vacuity: two acts, a concurrent group, an action longer than the
    tempo delaying the next group, latencies of 1 everywhere. *)
Example c04_nonvacuous :
  let tm := mkPtime (fun _ => 1) (fun _ _ => mkSctime 1 (fun _ _ => 1) (fun _ k => mkAtime 1 (if Nat.eqb k 0 then 120 else 5) 1) 1) in
  map (fun e => (e_gstart e, e_gend e))
      (timed_play tm 1000 [[mkScene 0 [mkLine 1 [SDo 1 false; SDo 2 true]; mkLine 2 [SDo 3 false]]; mkScene 50 [mkLine 1 [SDo 1 false]]; mkScene 100 []];
                           [mkScene 0 [mkLine 2 [SDo 3 false]]]])
  = [(1003, 1125); (1126, 1133); (1003, 1125); (1136, 1258); (1264, 1386)].
Proof. vm_compute. reflexivity. Qed.
