(** C01 — Audit modalities judge a period exactly by their plain meaning.

    The transition tables are data in pkg/cmd/pred_fsm.go; they are translated
    to coq/gen/FsmTables.v on every run, and coq/gen/Obl_C01.v (generated next
    to it) instantiates [c01_registry_correct] with them after discharging
    [check_registered registered 64 = true] by vm_compute.  This file holds the
    once-proved part. *)
From Shk Require Import Base.Prelude Model.Value Model.Functions Model.Expr Model.Fsm Model.Meaning Model.Audit
  Proofs.Monitors Proofs.FsmProofs Proofs.AuditProofs.
From Coq Require Import String.

(** If the reflective check of a registry of tables succeeds, then for every
    modality name of the statement the table registered under it reports — for
    every finite observation sequence of any length followed by the end of the
    period — at least one disappointment iff the sequence violates the
    modality's plain meaning, never crashes, and a period without
    disappointment ends with a reported satisfaction; and no other name is
    accepted. *)
Theorem c01_registry_correct : forall reg fuel,
  check_registered reg fuel = true ->
  (forall m, exists tbl, lookup reg (name_of m) = Some tbl /\
     forall tr, exists vs,
       run_period tbl tr = Some vs /\
       disappointed vs = negb (meaning m tr) /\
       (disappointed vs = false -> ends_satisfied vs = true))
  /\ (forall n tbl, lookup reg n = Some tbl -> exists m, n = name_of m).
Proof. exact registry_correct. Qed.

(** The monitors the tables are compared with mean what the modalities mean. *)
Theorem c01_monitor_meaning : forall m tr, mon_run m tr = negb (meaning m tr).
Proof. exact monitor_meaning. Qed.

(** "eventually always" read declaratively. *)
Theorem c01_eventually_always_reading : forall tr,
  meaning EventuallyAlways tr = true <-> exists i j, tr = (repeat false i ++ repeat true (S j))%list.
Proof. exact ev_always_iff_spec. Qed.

(** What an auditor observes IS its predicate: through the whole round machine
    (Model/Audit.v, tied to audit.go by C02's correspondence), the label of
    every report that is not the end-of-period judgement is the value of the
    `expects` predicate in that round, taken after the auditor's own
    assignments of the round and only when the predicate's dependencies were
    just sampled ("err" when it does not evaluate to a boolean).  C02's period
    grammar follows exactly these labels through the table from its start
    state; [c01_registry_correct] says what the table makes of them. *)
Theorem c01_observations_are_the_predicate_values : forall c final s ts m s' o stt tbl p a l code,
  visit c final s ts m = (s', o, stt) -> m_expect m = Some (tbl, p) ->
  In (OReport a l code) o -> l <> "end"%string ->
  a = m_name m /\
  exists s0 s1 o1, do_assigns c s0 ts (m_assigns m) = (s1, o1, Running) /\ has_deps s1 p = true /\
    ((l = "err"%string /\ truthy (eval (env_of s1) p) = None) \/
     (exists b, truthy (eval (env_of s1) p) = Some b /\ l = lbl b)).
Proof. exact visit_reports_the_predicate_value. Qed.

(** Non-vacuity: meanings that hold and fail. *)
Example c01_nonvacuous :
  meaning Once [false; true; false] = true /\ meaning Once [true; true] = false /\
  meaning Never [false; false] = true /\ meaning Never [false; true] = false /\
  meaning EventuallyAlways [false; true; true] = true /\ meaning EventuallyAlways [true; false; true] = false.
Proof. vm_compute. repeat split. Qed.
