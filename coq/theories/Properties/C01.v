(** C01 — Audit modalities judge a period exactly by their plain meaning.

    The transition tables are data in pkg/cmd/pred_fsm.go; they are translated
    to coq/gen/FsmTables.v on every run, and coq/gen/Obl_C01.v (generated next
    to it) instantiates [c01_registry_correct] with them after discharging
    [check_registered registered 64 = true] by vm_compute.  This file holds the
    once-proved part. *)
From Shk Require Import Base.Prelude Model.Fsm Model.Meaning Proofs.Monitors Proofs.FsmProofs.
From Coq Require Import String.

(** If the reflective check of a registry of tables succeeds, then for every
    modality name of the statement the table registered under it reports — for
    every finite observation sequence of any length followed by the end of the
    period — at least one disappointment iff the sequence violates the
    modality's plain meaning, never crashes, and a period without
    disappointment ends with a reported satisfaction; and no other name is
    accepted. *)
Theorem c01_registry_correct : forall reg fuel,
  check_registered reg fuel = true ->
  (forall m, exists tbl, lookup reg (name_of m) = Some tbl /\
     forall tr, exists vs,
       run_period tbl tr = Some vs /\
       disappointed vs = negb (meaning m tr) /\
       (disappointed vs = false -> ends_satisfied vs = true))
  /\ (forall n tbl, lookup reg n = Some tbl -> exists m, n = name_of m).
Proof. exact registry_correct. Qed.

(** The monitors the tables are compared with mean what the modalities mean. *)
Theorem c01_monitor_meaning : forall m tr, mon_run m tr = negb (meaning m tr).
Proof. exact monitor_meaning. Qed.

(** "eventually always" read declaratively. *)
Theorem c01_eventually_always_reading : forall tr,
  meaning EventuallyAlways tr = true <-> exists i j, tr = (repeat false i ++ repeat true (S j))%list.
Proof. exact ev_always_iff_spec. Qed.

(** Non-vacuity: meanings that hold and fail. *)
Example c01_nonvacuous :
  meaning Once [false; true; false] = true /\ meaning Once [true; true] = false /\
  meaning Never [false; false] = true /\ meaning Never [false; true] = false /\
  meaning EventuallyAlways [false; true; true] = true /\ meaning EventuallyAlways [true; false; true] = false.
Proof. vm_compute. repeat split. Qed.
