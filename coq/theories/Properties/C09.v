(** C09 — Configuration reader robustness and truthful diagnostics.
    Statements only; every proof is [exact <lemma>].

    The reader (readLine, newSubReader, pos.wrapErr), the dispatch of
    parseCfg/parseSection around it, the `edit` splitter, preprocReplace and
    parseDefines are transcribed in Model/Reader.v and Model/ParseSmall.v with
    [Panic]/[OutOfFuel] as real outcomes.  The regexp-dispatched clause
    parsers, checkIdent and govaluate are NOT transcribed: their verdict on a
    logical line is an arbitrary [judge], and every theorem below holds for
    all judges; that they themselves neither crash nor loop rests on the
    differential fuzzing of checks/c09.py only. *)
From Shk Require Import Base.Prelude Model.ParseSmall Model.Reader Proofs.ParseSmallProofs Proofs.ReaderProofs.
Open Scope Z_scope.

(** Reading terminates: for every file system, search path, -D list, main
    file and behaviour of the clause parsers, [fuel_bound fs] calls of
    readLine suffice (a bound from the largest file and the depth limit). *)
Theorem c09_reader_total : forall fs ip defs main jd,
  exists fuel, (fuel <= fuel_bound fs)%nat /\ parse_config fuel fs ip defs main jd <> ROutOfFuel.
Proof. exact reader_total. Qed.

Theorem c09_reader_total_monotone : forall fs ip defs main jd fuel,
  (fuel_bound fs <= fuel)%nat -> parse_config fuel fs ip defs main jd <> ROutOfFuel.
Proof. exact reader_total_any_more_fuel. Qed.

(** ... and never crashes: no index or slice expression of readLine, wrapErr,
    preprocReplace, parseDefines goes out of range. *)
Theorem c09_reader_no_panic : forall fuel fs ip defs main jd,
  parse_config fuel fs ip defs main jd <> RPanic.
Proof. exact reader_no_panic. Qed.

Theorem c09_edit_no_panic : forall editcmd, edit_split editcmd <> EditPanic.
Proof. exact edit_no_panic. Qed.

Theorem c09_preproc_no_panic : forall pv s, preproc pv s <> PpPanic.
Proof. exact preproc_no_panic. Qed.

(** ... nor loops: preprocReplace is one pass over the text, bounded in its
    result, even when parameter values mention themselves or each other. *)
Theorem c09_preproc_terminates_bounded : forall pv s,
  match preproc pv s with
  | PpOk out => (length out <= length s * S (max_val_len pv))%nat
  | PpUndefined names => names <> []
  | PpPanic => False
  end.
Proof. exact preproc_terminates_bounded. Qed.

Theorem c09_defines_no_panic : forall defs, exists pv, parse_defines defs = Ok pv.
Proof. exact parse_defines_no_panic. Qed.

(** validateShorthand is total: every string yields a shorthand byte or one
    of its two diagnostics (the empty shorthand, which `scene <NBSP> ...`
    delivers because \S accepts what TrimSpace removes, included). *)
Theorem c09_shorthand_no_panic : forall s, validate_shorthand s <> ShPanic.
Proof. exact shorthand_no_panic. Qed.

(** Whenever the diagnostic names a position, that file opens to a content
    that has that line (the one exception, stated: the failed first read of a
    directory is reported at line 1 of that directory); every entry of the
    include chain is an existing line of an existing file. *)
Theorem c09_position_truthful : forall fuel fs ip defs main jd d,
  parse_config fuel fs ip defs main jd = RErr d ->
  (forall f n, d_pos d = Some (f, n) ->
     (exists content, fs_open fs f = OFile content /\ 1 <= n <= zlen (phys_lines content))
     \/ (d_kind d = EReadError /\ fs_open fs f = ODir /\ n = 1))
  /\ Forall (fun e => exists content, fs_open fs (fst e) = OFile content /\ 1 <= snd e <= zlen (phys_lines content))
            (d_chain d).
Proof. exact position_truthful. Qed.

(** A clause the clause parsers refuse is reported at exactly its own file and
    line — the first physical line of the logical line that was judged — with
    the chain of the reader stack (file and include line of every includer). *)
Theorem c09_clause_at_own_line : forall fs ip jd st d,
  st_inv fs (ds_stack st) -> parse_step fs ip jd st = SErr d -> d_kind d = EClause ->
  exists r ps l n,
    ds_stack st = r :: ps /\ logical_at fs (sr_file r) n l /\
    d_pos d = Some (sr_file r, n) /\ d_chain d = chain_of r ps /\
    exists j, j_line j = l /\ j_file j = sr_file r /\ j_lineno j = n /\ j_chain j = chain_of r ps /\ jd j <> VAccept.
Proof. exact clause_at_own_line. Qed.

(** [st_inv] is not an assumption about inputs: it holds initially and is kept
    by every step. *)
Theorem c09_invariant_reachable : forall fs ip defs main jd pv stk st,
  parse_defines defs = Ok pv -> open_main fs ip main = ROk stk ->
  reach fs ip jd {| ds_stack := stk; ds_pv := pv; ds_insec := false |} st -> st_inv fs (ds_stack st).
Proof. exact invariant_reachable. Qed.

(** Self-including files are stopped: never more than ten readers. *)
Theorem c09_include_depth_bounded : forall fs ip defs main jd pv stk st,
  parse_defines defs = Ok pv -> open_main fs ip main = ROk stk ->
  reach fs ip jd {| ds_stack := stk; ds_pv := pv; ds_insec := false |} st ->
  (1 <= length (ds_stack st) <= 10)%nat.
Proof. exact include_depth_bounded. Qed.

(** * Non-vacuity *)

Definition ex_root : bs := [x2f; x72; x2f; x74].
Definition ex_fs : fsys :=
  {| fs_files := [([x2f; x72; x2f; x74; x2f; x6d; x2e; x63; x66; x67], [x74; x69; x74; x6c; x65; x20; x78; x0a; x69; x6e; x63; x6c; x75; x64; x65; x20; x61; x2e; x63; x66; x67; x0a; x74; x69; x74; x6c; x65; x20; x79; x0a]);
                  ([x2f; x72; x2f; x74; x2f; x61; x2e; x63; x66; x67], [x23; x20; x63; x0a; x62; x6f; x67; x75; x73; x20; x6c; x69; x6e; x65; x0a]);
                  ([x2f; x72; x2f; x74; x2f; x73; x65; x6c; x66; x2e; x63; x66; x67], [x69; x6e; x63; x6c; x75; x64; x65; x20; x73; x65; x6c; x66; x2e; x63; x66; x67; x0a])];
     fs_dirs := [[x2f]; [x2f; x72]; [x2f; x72; x2f; x74]; [x2f; x72; x2f; x74; x2f; x61; x64; x69; x72]] |}.

(** A clause refused inside an included file: position, and the chain naming
    the include line (line 2 of m.cfg). *)
Example c09_ex_error_in_included_file :
  exists d, parse_config 100 ex_fs [ex_root] [] [x6d; x2e; x63; x66; x67]
              (fun j => if bytes_eqb (j_line j) [x62; x6f; x67; x75; x73; x20; x6c; x69; x6e; x65] then VReject else VAccept) = RErr d
            /\ d_kind d = EClause /\ d_pos d = Some ([x2f; x72; x2f; x74; x2f; x61; x2e; x63; x66; x67], 2) /\ d_chain d = [([x2f; x72; x2f; x74; x2f; x6d; x2e; x63; x66; x67], 2)].
Proof. eexists. vm_compute. repeat split. Qed.

(** The regressions, on the model of the repaired code. *)
Example c09_ex_directory_include_is_an_error :
  exists d, parse_config 100 ex_fs [ex_root] [] [x61; x64; x69; x72] (fun _ => VAccept) = RErr d
            /\ d_kind d = EReadError /\ d_pos d = Some ([x2f; x72; x2f; x74; x2f; x61; x64; x69; x72], 1).
Proof. eexists. vm_compute. repeat split. Qed.

Example c09_ex_self_inclusion_refused :
  exists d, parse_config 100 ex_fs [ex_root] [] [x73; x65; x6c; x66; x2e; x63; x66; x67] (fun _ => VAccept) = RErr d
            /\ d_kind d = EDepth /\ d_pos d = Some ([x2f; x72; x2f; x74; x2f; x73; x65; x6c; x66; x2e; x63; x66; x67], 1) /\ length (d_chain d) = 9%nat.
Proof. eexists. vm_compute. repeat split. Qed.

Example c09_ex_edit_before_fix_panicked :
  edit_split_before_fix [x73; x2f; x61; x62] = EditPanic /\ edit_split [x73; x2f; x61; x62] = EditInvalid.
Proof. exact edit_before_fix_panicked. Qed.

Example c09_ex_shorthand_len_gt_panics :
  validate_shorthand_len_gt [] = ShPanic /\ validate_shorthand [] = ShBadLength.
Proof. exact shorthand_len_gt_panics. Qed.

(** [Panic] and [OutOfFuel] are real outcomes of the model: wrapErr on a
    reader that has recorded no line (the state the read-error fix removed)
    indexes out of range, and one call of readLine is not enough fuel. *)
Example c09_ex_wrap_err_can_panic : wrap_err EReadError 1 (mk_sub [x2f; x72; x2f; x74; x2f; x61; x64; x69; x72] [] true) [] = None.
Proof. reflexivity. Qed.

Example c09_ex_out_of_fuel_is_reachable :
  parse_config 1 ex_fs [ex_root] [] [x6d; x2e; x63; x66; x67] (fun _ => VAccept) = ROutOfFuel.
Proof. vm_compute. reflexivity. Qed.
