(** C18 — Microsecond conversions round to nearest and Timers honour
    Reset/Stop.  Statements only; every proof is [exact <lemma>]. *)
From Shk Require Import Base.Prelude Model.Timeutil Model.Ticker Proofs.TimeutilProofs Corr.C18 Proofs.TimerRefine Proofs.TickerProofs.
Open Scope list_scope.
Open Scope Z_scope.

(** ToUnixMicros = the nearest number of microseconds, half up: for every
    second count and every nanosecond offset within the second. *)
Theorem c18_to_micros_nearest : forall s n,
  0 <= n < 1000000000 -> to_micros (s, n) = nearest_micros (s, n).
Proof. exact to_micros_nearest. Qed.

(** ... where "nearest, half up" means what it says, and is unique. *)
Theorem c18_nearest_characterised : forall t m,
  (m * 1000 - 500 <= ns_of t < m * 1000 + 500) <-> m = nearest_micros t.
Proof. intros t m; split; [apply nearest_unique | intros ->; apply nearest_is_nearest]. Qed.

Theorem c18_to_micros_monotone : forall t1 t2,
  wf_instant t1 -> wf_instant t2 -> ns_of t1 <= ns_of t2 -> to_micros t1 <= to_micros t2.
Proof. exact to_micros_monotone. Qed.

Theorem c18_round_trip : forall us,
  wf_instant (from_micros us) /\ ns_of (from_micros us) = us * 1000 /\
  to_micros (from_micros us) = us.
Proof. intros us; repeat split; [apply from_micros_wf | apply from_micros_wf | apply from_micros_ns | apply micros_round_trip]. Qed.

(** Timer: in every state reachable by any sequence of Reset / time passing /
    runtime fire / receive (setting Read) / Stop, with any behaviour of the
    pool, no operation blocks. *)
Theorem c18_reset_never_blocks : forall s l, reachable s -> step s l <> Blocks.
Proof. exact nothing_blocks. Qed.

(** A receive happens at most once per Reset and not before the duration has
    elapsed. *)
Theorem c18_one_fire_not_early : forall s s' t,
  reachable s -> step s LRecv = Next s' (ORecv t) ->
  g_recvs s = 0%nat /\ g_recvs s' = 1%nat /\ t = now s /\ g_reset_at s + g_d s <= t.
Proof. exact recv_once_not_early. Qed.

(** ... and exactly once: the fire is pending, delivered or consumed — never
    lost — and becomes deliverable once the deadline has passed. *)
Theorem c18_fire_not_lost : forall s i,
  reachable s -> tm s = Some i ->
  (armed i = true /\ full i = false /\ g_recvs s = 0%nat) \/
  (armed i = false /\ full i = true /\ g_recvs s = 0%nat) \/
  (armed i = false /\ full i = false /\ g_recvs s = 1%nat).
Proof. exact fire_pending_delivered_or_consumed. Qed.

Theorem c18_fire_enabled_at_deadline : forall s i,
  tm s = Some i -> armed i = true -> deadline i <= now s ->
  exists s', step s LFire = Next s' ONone.
Proof. exact fire_enabled_at_deadline. Qed.

(** Nothing is delivered after a Stop, to this user or to the next user of the
    pooled timer. *)
Theorem c18_none_after_stop : forall s s' ok,
  reachable s -> step s LStop = Next s' (OStop ok) ->
  step s' LRecv = NotEnabled /\ (forall k, step s' (LFirePool k) = NotEnabled) /\ pool_ok (pool s').
Proof. exact none_after_stop. Qed.

(** The model refines the abstract one-shot timer for every operation list. *)
Theorem c18_timer_refines_one_shot : forall ops, aspec_run AIdle ops (drive t_init ops) = true.
Proof. exact timer_refines_spec. Qed.

(** No run of the Timer, by whatever sequence of labels, ends in an operation
    that blocks (the run-level form of [c18_reset_never_blocks]). *)
Theorem c18_no_run_blocks : forall ls m, run ls <> RBlocks m.
Proof. exact run_never_blocks. Qed.

(** The user of the Timer in pkg/cmd, the collector's flush ticker
    (Model/Ticker.v: NewTimer; Reset(P); per select event: time passes / the
    runtime fires / `case <-t.C: t.Read = true; t.Reset(P); flush` / any other
    case), for every period and every sequence of loop events: its Reset never
    blocks; the flushes are at least one period apart, the first one at least
    one period after the start, so there are at most now/P of them ... *)
Theorem c18_ticker_never_blocks : forall P es m, run (ticker_labels P es) <> RBlocks m.
Proof. exact ticker_never_blocks. Qed.

Theorem c18_ticker_flushes_spaced : forall P es s os,
  run (ticker_labels P es) = RDone s os ->
  spaced P 0 (recv_times os) /\ P * Z.of_nat (length (recv_times os)) <= now s.
Proof. exact ticker_flushes_spaced. Qed.

(** ... and the next flush is never lost: once a period has elapsed since the
    last (re-)arming the flush event is enabled — at once when the tick is
    already in the channel, otherwise after the runtime's fire — it delivers
    exactly one receive, at the current instant, and re-arms without blocking. *)
Theorem c18_ticker_flush_available : forall P es s os,
  run (ticker_labels P es) = RDone s os -> g_reset_at s + P <= now s ->
  exists pre s' os', (pre = [] \/ pre = [CFire]) /\
    exec s (flat_map (cev_labels P) (pre ++ [CFlush])) = Some (s', os') /\
    recv_times os' = [now s].
Proof. exact ticker_flush_available. Qed.

(** The executable spacing test of the correspondence cases is the spacing
    predicate of the theorem. *)
Theorem c18_spacedb_is_spaced : forall P ts last, spacedb P last ts = true <-> spaced P last ts.
Proof. exact spacedb_spec. Qed.

(** Non-vacuity: reachable states with a fired, a consumed and a pooled timer. *)
Example c18_nonvacuous :
  exists os, run [LReset 5 None; LTick 7; LFire; LRecv; LReset 3 None; LStop; LReset 2 (Some 0%nat); LTick 2; LFire] = RDone
    {| now := 9; tm := Some {| armed := false; deadline := 9; full := true |}; readf := false;
       pool := []; g_reset_at := 7; g_d := 2; g_recvs := 0; g_stopped_ok := false |} os.
Proof. eexists. vm_compute. reflexivity. Qed.

Example c18_nonvacuous_micros :
  to_micros (0, 999999500) = 1000000 /\ to_micros (-1, 999999499) = -1 /\ to_micros (-1, 500) = -999999.
Proof. vm_compute. repeat split. Qed.

(** Non-vacuity of the ticker theorems: a run of the loop with three flushes,
    one of them late, other events in between. *)
Example c18_ticker_nonvacuous :
  exists s os, run (ticker_labels 10 [CTime 4; COther; CTime 6; CFire; CFlush; CTime 25; COther; CFire; CTime 3; CFlush;
                                      CTime 10; CFire; CFlush; CTime 2]) = RDone s os /\
               recv_times os = [10; 38; 48] /\ now s = 50.
Proof. eexists; eexists. vm_compute. repeat split. Qed.
