(** C10 — the printed configuration re-loads to the same play.

    Statements only; the proofs are in Proofs/Config*.v.  The model is
    Model/Config.v: [apply] (one accepted clause), [print] (printCfg's
    order), [reload] (the printed clauses applied to a fresh configuration),
    [same_play], [print_equiv] (equality up to the order of one observer's
    watches), [printable] (the negation of the listed findings) and
    [wf_state] (the invariant of the construction). *)
From Coq Require Import String Permutation.
From Shk Require Import Base.Prelude Model.Storyline Model.Config.
From Shk Require Import Proofs.ConfigText Proofs.ConfigRoles Proofs.ConfigReload Proofs.ConfigSame Proofs.ConfigParams
  Proofs.ConfigInvariant Proofs.ConfigInvAudience Proofs.StoryScriptProofs Proofs.ConfigStory Proofs.ConfigStable.
Open Scope Z_scope.

(** [s] is built from the initial configuration (with any -D definitions) by
    any list of accepted clauses. *)
Definition reachable (orc : oracles) (s : cstate) : Prop :=
  exists defs cl, run orc cl (init_state defs) = Ok s.

(** the printed configuration is accepted, loads to the same play, and prints
    the same up to the order of one observer's watches *)
Definition reloads (orc : oracles) (s : cstate) : Prop :=
  exists s', reload orc s = Ok s' /\ same_play s s' /\ print_equiv (print orc s') (print orc s).

(** [wf_state] is an invariant of the construction: every state built from the
    initial one (with any -D definitions) by any list of accepted clauses is
    well-formed.  By induction on the clause list; every clause kind keeps
    every conjunct (unique names, references to existing roles / actors /
    signals / actions, expressions equal to what the compiler says of their
    source, signal references registered as watches, the repetition point
    equal to the first matching act...). *)
Theorem c10_reachable_wf :
  forall orc s, reachable orc s -> wf_state orc s = true.
Proof.
  intros orc s (defs & cl & H). exact (run_wf orc cl (init_state defs) s (wf_init orc defs) H).
Qed.

(** The full statement, "every reachable state reloads", is FALSE of the
    faithful model (and of the code): see the refutations below.  What holds:
    every reachable state that is [printable] reloads.  [printable]
    excludes exactly the listed findings (substituted texts that are empty or
    hold a parameter reference, a time stamp pseudo-pattern left in a regexp,
    an audience not in definition order) plus [story_printable], which is an
    invariant of the storyline functions (C06) that this development assumes
    and the correspondence run evaluates on every case.  [oracle_ok] is what
    is assumed of the time library: ParseDuration (d.String()) = d, and a
    printed duration holds no `~` and is not the word `unconstrained`. *)
Theorem c10_reload_partial :
  forall orc s, oracle_ok orc -> reachable orc s -> printable s = true -> reloads orc s.
Proof.
  intros orc s Horc Hreach Hpr. pose proof (c10_reachable_wf orc s Hreach) as Hwf.
  exists (canon_state orc s).
  split; [exact (reload_canon orc Horc s Hwf Hpr)|].
  split; [exact (same_play_canon orc s Hwf)|exact (print_equiv_canon orc s Hwf)].
Qed.

(** The property applies to the printed configuration itself: the reloaded
    state is reachable (the printed clauses are an accepted clause list) and
    printable again, so its own printed form reloads too. *)
Theorem c10_reload_stable :
  forall orc s, oracle_ok orc -> reachable orc s -> printable s = true ->
  exists s', reload orc s = Ok s' /\ reachable orc s' /\ printable s' = true /\ reloads orc s'.
Proof.
  intros orc s Horc Hreach Hpr. pose proof (c10_reachable_wf orc s Hreach) as Hwf.
  pose proof (reload_canon orc Horc s Hwf Hpr) as Hr.
  assert (Hreach' : reachable orc (canon_state orc s)) by (exists [], (print orc s); exact Hr).
  pose proof (printable_canon orc s Hwf Hpr) as Hpr'.
  exists (canon_state orc s). repeat split; auto.
  apply c10_reload_partial; assumption.
Qed.

(** [story_printable] is no finding but an invariant: with the C06 theorems
    (a well-formed storyline is read back from its printed form; storyline
    and edit clauses keep it well-formed; definitions only grow), for every
    run whose storyline texts and edit results hold no white space but ' '
    (C06's own domain assumption, [clauses_nc]). *)
Theorem c10_story_printable :
  forall orc defs cl s,
    clauses_nc orc cl (init_state defs) -> run orc cl (init_state defs) = Ok s -> story_printable s = true.
Proof.
  intros orc defs cl s Hnc H. apply story_wf_printable.
  exact (run_story_wf orc cl (init_state defs) s (story_wf_init defs) Hnc H).
Qed.

(** Hence, on that domain, the reload theorem with only the listed findings
    excluded: substituted texts inert and not empty, no time stamp
    pseudo-pattern left in a regexp, the audience in definition order. *)
Theorem c10_reload_no_ctl_partial :
  forall orc defs cl s,
    oracle_ok orc -> clauses_nc orc cl (init_state defs) -> run orc cl (init_state defs) = Ok s ->
    texts_printable s = true -> regexps_printable s = true -> aud_ordered [] (c_aud s) = true ->
    reloads orc s.
Proof.
  intros orc defs cl s Horc Hnc H Ht Hr Ho.
  apply (c10_reload_partial orc s Horc); [exists defs, cl; exact H|].
  unfold printable. rewrite Ht, Hr, Ho, (c10_story_printable orc defs cl s Hnc H). reflexivity.
Qed.

(** Parameters appear substituted: a reference ~n~ to a defined parameter in a
    substituted field is replaced by the value, which is not expanded again;
    the text before it (holding no `~`) is kept. *)
Theorem c10_params_substituted :
  forall orc s a n v b b',
    no_tilde a -> word n -> lookup_b n (c_pvars s) = Some v -> preproc (c_pvars s) b = Ok b' ->
    exists s', apply orc s (CTitle (a ++ b_tilde :: n ++ b_tilde :: b)) = Ok s'
               /\ c_titles s' = c_titles s ++ [a ++ v ++ b'].
Proof. exact title_substituted. Qed.

(** -D definitions take precedence over in-file defaults (and the first
    definition of a name wins): the first -D of a name is its value, and a
    `parameter` clause for a defined name changes nothing. *)
Theorem c10_define_precedence :
  (forall n v rest, lookup_b n (parse_defines ((n ++ x3d :: v) :: rest)) = Some v \/ In x3d n)
  /\ (forall orc s n v v', ident_ok n = true -> lookup_b n (c_pvars s) = Some v ->
        exists s', apply orc s (CParam n v') = Ok s' /\ c_pvars s' = c_pvars s).
Proof. split; [exact first_define_wins|exact param_does_not_override]. Qed.

(** * Refutations of the full statement (each witness is replayed on the real
    code by the correspondence run: these are the listed findings) *)

(** a concrete instance of the libraries for the witnesses *)
Definition w_exprs : list (bytes * list bytes) :=
  [(bs "true", []); (bs "t", [bs "t"]); (bs "v > 0", [bs "v"])].
Definition w_regexps : list (bytes * list bytes) :=
  [(bs "(?P<ts_log>\d{6} \d\d:\d\d:\d\d\.\d{6})(?P<event>a)|(?P<ts_log>)", [bs "ts_log"; bs "event"; bs "ts_log"]);
   (bs "(?P<ts_log>\d{6} \d\d:\d\d:\d\d\.\d{6})(?P<event>a)|(?P<ts_log>\d{6} \d\d:\d\d:\d\d\.\d{6})", [bs "ts_log"; bs "event"; bs "ts_log"])].
Definition w_orc : oracles :=
  mkOracles (fun e => lookup_b e w_exprs) (fun r => lookup_b r w_regexps) (fun _ => true)
            contains_sub (fun _ _ x => x) parse_int itoa_z.

Lemma w_orc_ok : oracle_ok w_orc.
Proof.
  assert (Hneg : forall d, d < 0 -> itoa_z d = x2d :: itoa (Z.to_N (- d))).
  { intros d H. unfold itoa_z. apply Z.ltb_lt in H. rewrite H. reflexivity. }
  split; [|split]; intros d; cbn [o_dur_parse o_dur_string w_orc].
  - destruct (Z.ltb_spec d 0) as [H|H].
    + rewrite (Hneg d H). cbn [parse_int]. rewrite atoi_itoa. cbn. rewrite Z2N.id by lia. f_equal. lia.
    + apply parse_int_itoa_z. exact H.
  - apply preproc_no_tilde. destruct (Z.ltb_spec d 0) as [H|H].
    + rewrite (Hneg d H). constructor; [reflexivity|apply itoa_no_tilde].
    + apply itoa_z_no_tilde. exact H.
  - destruct (Z.ltb_spec d 0) as [H|H].
    + rewrite (Hneg d H). reflexivity.
    + unfold itoa_z. apply Z.ltb_ge in H. rewrite H.
      destruct (itoa_cons (Z.to_N d)) as (c & tl & E & Hc). rewrite E.
      unfold unconstrained. cbn. destruct (Byte.eqb c x75) eqn:Ec; [|reflexivity].
      apply byte_eqb_eq in Ec. subst c. discriminate Hc.
Qed.

Ltac refute_rejected :=
  intros (s' & H & _); vm_compute in H; discriminate H.

(** watches-before-computes: `obs measures x` / `aud computes v as t` /
    `obs watches v` is accepted; its printed form puts `obs watches v` first
    and is rejected (variable not defined). *)
Theorem c10_reload_refuted_watches_before_computes :
  exists defs cl s, oracle_ok w_orc /\ run w_orc cl (init_state defs) = Ok s /\ wf_state w_orc s = true /\ ~ reloads w_orc s.
Proof.
  exists [], [CMeasures (bs "obs") (bs "x"); CComputes (bs "aud") (bs "v") (bs "t"); CWatchVar (bs "obs") (bs "v")].
  eexists. split; [exact w_orc_ok|]. split; [vm_compute; reflexivity|]. split; [vm_compute; reflexivity|]. refute_rejected.
Qed.

(** uses-before-computes: the same with a use in an expression. *)
Theorem c10_reload_refuted_uses_before_computes :
  exists defs cl s, oracle_ok w_orc /\ run w_orc cl (init_state defs) = Ok s /\ wf_state w_orc s = true /\ ~ reloads w_orc s.
Proof.
  exists [], [CMeasures (bs "a") (bs "foo"); CComputes (bs "b") (bs "v") (bs "t"); CExpects (bs "a") (bs "always") (bs "v > 0")].
  eexists. split; [exact w_orc_ok|]. split; [vm_compute; reflexivity|]. split; [vm_compute; reflexivity|]. refute_rejected.
Qed.

(** substituted-value-contains-parameter-reference: -Dp='a~p~b', `title ~p~`. *)
Theorem c10_reload_refuted_parameter_reference_in_value :
  exists defs cl s, oracle_ok w_orc /\ run w_orc cl (init_state defs) = Ok s /\ wf_state w_orc s = true /\ ~ reloads w_orc s.
Proof.
  exists [bs "p=a~p~b"], [CTitle (bs "~p~")].
  eexists. split; [exact w_orc_ok|]. split; [vm_compute; reflexivity|]. split; [vm_compute; reflexivity|]. refute_rejected.
Qed.

(** substituted-value-empty: -Dp=, `title ~p~`. *)
Theorem c10_reload_refuted_empty_substituted_title :
  exists defs cl s, oracle_ok w_orc /\ run w_orc cl (init_state defs) = Ok s /\ wf_state w_orc s = true /\ ~ reloads w_orc s.
Proof.
  exists [bs "p="], [CTitle (bs "~p~")].
  eexists. split; [exact w_orc_ok|]. split; [vm_compute; reflexivity|]. split; [vm_compute; reflexivity|]. refute_rejected.
Qed.

(** ts-pseudo-pattern-twice: only the first `(?P<ts_log>)` is expanded; the
    printed regexp still holds one, which the reload expands: the printed
    configuration is accepted but the role's signal differs. *)
Theorem c10_reload_refuted_ts_pseudo_pattern_twice :
  exists defs cl s, oracle_ok w_orc /\ run w_orc cl (init_state defs) = Ok s /\ wf_state w_orc s = true /\ ~ reloads w_orc s.
Proof.
  exists [], [CRole (bs "doc") None [RSpotlight (bs "echo hi");
                                     RSignal (bs "s") (bs "event") (bs "(?P<ts_log>)(?P<event>a)|(?P<ts_log>)")]].
  eexists. split; [exact w_orc_ok|]. split; [vm_compute; reflexivity|]. split; [vm_compute; reflexivity|].
  intros (s' & H & Hsame & _). vm_compute in H. inversion H; subst s'; clear H.
  destruct Hsame as (_ & _ & _ & Hroles & _). vm_compute in Hroles. discriminate Hroles.
Qed.

(** * Non-vacuity: a configuration with a role, a cast, a script, an audience
    of two members in definition order and an interpretation is well-formed
    and printable (so the hypotheses of [c10_reload_partial] are satisfiable,
    and its conclusion is not trivial: the reloaded state has the audience). *)
Definition nv_clauses : list clause :=
  [CTitle (bs "~p~ dream");
   CRole (bs "doc") None [RAction (bs "cure") (bs "echo a"); RSpotlight (bs "echo hi")];
   CCast (bs "bob") true (Some (bs "2")) (bs "docs") (bs "A=1");
   CEntails (bs "a") (TEvery (bs "doc")) [bs "cure?"];
   CMoodEnd (bs "a") (bs "blue");
   CStoryline (bs "a .a");
   CRepeatFrom (bs "a");
   CComputes (bs "aud") (bs "v") (bs "t");
   CMeasures (bs "obs") (bs "x");
   CWatchVar (bs "obs") (bs "v");
   CExpects (bs "obs") (bs "always") (bs "v > 0");
   CInterp (bs "require") (bs "obs") (bs "satisfaction")].

Example c10_reload_nonvacuous :
  exists s s', run w_orc nv_clauses (init_state [bs "p=summer"]) = Ok s
            /\ wf_state w_orc s = true /\ printable s = true
            /\ reload w_orc s = Ok s' /\ List.length (c_aud s') = 2%nat /\ List.length (c_actors s') = 2%nat
            /\ c_titles s' = [bs "summer dream"].
Proof.
  (* no [repeat split]: [split] closes an equation by [eq_refl] through the
     lazy machine, which instantiates the state with an unreduced term *)
  do 2 eexists.
  split; [vm_compute; reflexivity|].
  split; [vm_compute; reflexivity|].
  split; [vm_compute; reflexivity|].
  split; [vm_compute; reflexivity|].
  split; [vm_compute; reflexivity|].
  split; vm_compute; reflexivity.
Qed.
