(** C05 — a play runs to the end of its script unless a failure is reported.
    Statements only; every proof is [exact <lemma>].

    [perform fuel p r tmo o]: the untimed prompter on the compiled play [p]
    with the repeat specification [r] (repeatActNum, repeatCount), the
    repeat-timeout observations [tmo] and the oracle [o] giving the result of
    every action instance (iteration, act, scene, line, step).  It returns the
    performed scene groups in order and PCompleted | PFailed.  [fuel] only
    bounds `repeat always` loops ([OutOfFuel], excluded by the hypotheses).
    The conductor part is over the LTS of Model/Conduct.v, for every label
    sequence (every order in which the components terminate and are received). *)
From Shk Require Import Base.Prelude Model.Prompt Proofs.PromptProofs Model.Conduct Proofs.ConductProofs.
Open Scope Z_scope.

(** If the prompter reports no failure it performed exactly what the script
    prescribes: every act once, then the repeated acts K-1 more times. *)
Theorem c05_complete_unless_failed : forall fuel p r tmo o gs,
  perform fuel p r tmo o = Ok (gs, PCompleted) ->
  exists K, (1 <= K)%nat /\ gs = prescribed p r K.
Proof. exact complete_unless_failed. Qed.

(** ... and with `repeat N times` (N >= 1), no time limit, K is N: the
    repeated acts are played N times in total. *)
Theorem c05_complete_repeat_n_times : forall fuel p r tmo o gs N,
  perform fuel p r tmo o = Ok (gs, PCompleted) ->
  (1 <= repeatActNum r <= length p)%nat -> repeatCount r = Z.of_nat N -> (1 <= N)%nat ->
  (forall n, tmo n = false) ->
  gs = prescribed p r N.
Proof. exact complete_repeat_n_times. Qed.

(** A non-tolerated failure: the group it happens in is the last one
    performed, and the prompter reports a failure. *)
Theorem c05_failure_stops : forall fuel p r tmo o gs st pre g post x,
  perform fuel p r tmo o = Ok (gs, st) -> gs = pre ++ g :: post -> In x g -> hard_failure o x ->
  post = [] /\ st = PFailed.
Proof. exact failure_stops. Qed.

(** A failure of an action marked `?` neither stops the play nor affects the
    status: two oracles that differ only on `?` steps (both "ran") give the
    same result ... *)
Theorem c05_tolerated_ignored : forall fuel p r tmo o1 o2,
  agree p o1 o2 -> perform fuel p r tmo o1 = perform fuel p r tmo o2.
Proof. exact tolerated_ignored. Qed.

(** ... in particular the same as if every tolerated failure had succeeded. *)
Theorem c05_tolerated_failures_as_successes : forall fuel p r tmo o,
  perform fuel p r tmo o = perform fuel p r tmo (heal p o).
Proof. exact tolerated_failures_as_successes. Qed.

(** Over the conductor, for every finish order: if conduct returns nil and no
    termination signal was received, the prompter reached the end of its
    script.  (Before commit d415a46 this was false: a spotlight manager
    terminating with nil while the prompter ran ended the play with status 0;
    the model follows the repaired code: see [fin_ok].) *)
Theorem c05_exit0_implies_prompter_completed : forall h ls s,
  run (init h) ls = Some s -> returned s = Some ENil -> quiesce s = false -> g_completed s = true.
Proof. exact exit0_implies_prompter_completed. Qed.

(** Non-vacuity.  A two-act play, `repeat from` act 2, `repeat 2 times`: act 1
    once, act 2 twice; a tolerated failure does not stop it; a non-tolerated
    one does. *)
Definition ex_play : play :=
  [[mkScene 0 [mkLine 1 [SDo 1 false; SDo 2 true]]; mkScene 10 []]; [mkScene 0 [mkLine 1 [SDo 3 false]; mkLine 2 [SDo 4 false]]]].
Example c05_nonvacuous_complete :
  perform 10 ex_play (mkRepeat 2 2) (fun _ => false) (fun _ a _ _ k => if (Nat.eqb a 0 && Nat.eqb k 1)%bool then AFail else AOk)
  = Ok (prescribed ex_play (mkRepeat 2 2) 2, PCompleted)
  /\ length (concat (prescribed ex_play (mkRepeat 2 2) 2)) = 6%nat.
Proof. vm_compute. split; reflexivity. Qed.
Example c05_nonvacuous_failure :
  exists gs, perform 10 ex_play (mkRepeat 2 2) (fun _ => false) (fun it a _ l _ => if (Nat.eqb it 1 && Nat.eqb l 1)%bool then AFail else AOk)
             = Ok (gs, PFailed) /\ length (concat gs) = 6%nat.
Proof. eexists. vm_compute. split; reflexivity. Qed.
Example c05_nonvacuous_conduct :
  exists s, run (init false) [LCleanup1 true; LScene; LFinP true ENil; LPick CP; LFin CS ENil; LPick CS; LFin CA ENil; LPick CA;
                              LFin CK ENil; LPick CK; LDefer false; LCleanup2 true] = Some s /\ returned s = Some ENil.
Proof. eexists. vm_compute. split; reflexivity. Qed.
