(** C11 — Collected and computed variables hold exactly what the clauses say;
    the array and scalar functions return the mathematically defined result.

    [collect] / [apply_fn] are the collectFns / evalFunctions of
    Model/Functions.v, [do_assigns] / [set_var] / [visit] / [visit_all] /
    [round] the audition round machine of Model/Audit.v (all tied to
    pkg/cmd/functions.go and pkg/cmd/audit.go by the correspondence check on
    every run).  The vocabulary of the statements ([collect_seq], [lastn],
    [sort_desc], [nums], [is_min], [median_of_sorted] ...) is
    Model/FunctionsSpec.v.  Statements only; every one is for all N, all value
    sequences, all configurations and states — no bound on any length. *)
From Shk Require Import Base.Prelude Model.Value Model.Functions Model.Expr Model.Fsm Model.Audit
  Model.AuditSpec Model.FunctionsSpec Proofs.AuditProofs Proofs.FunctionsProofs Proofs.CollectProofs
  Proofs.CollectTraceProofs.
From Coq Require Import Sorting.Sorted Sorting.Permutation Qabs.
Open Scope list_scope.

(** * collects ... first | last | top | bottom N *)

(** Folding [first N] over ANY sequence of values, from the empty array: the
    first N non-nil values (booleans stay booleans). *)
Theorem c11_first_spec : forall n xs,
  collect_seq AFirst n [] xs = COk (firstn n (non_nil xs)).
Proof. exact first_spec. Qed.

(** [last N], N >= 1: the last N non-nil values. *)
Theorem c11_last_spec : forall n xs, (1 <= n)%nat ->
  collect_seq ALast n [] xs = COk (lastn n (non_nil xs)).
Proof. exact last_spec. Qed.

(** [top N]: on numeric / boolean / nil values never an error and never a
    crash, and the array is the N first of the values sorted descending
    (booleans as 0/1), equal values in order of arrival; a string (or array)
    value is an error — exactly then. *)
Theorem c11_top_spec : forall n xs,
  collect_seq ATop n [] xs =
  if forallb scalar_or_nil xs then COk (map VNum (firstn n (sort_desc (nums xs)))) else CErr.
Proof. exact top_spec. Qed.

Theorem c11_bottom_spec : forall n xs,
  collect_seq ABottom n [] xs =
  if forallb scalar_or_nil xs then COk (map VNum (firstn n (sort_asc (nums xs)))) else CErr.
Proof. exact bottom_spec. Qed.

(** What [sort_desc] / [sort_asc] are: sorted, stable permutations (which
    determines them: among numerically equal values the order of arrival is
    kept). *)
Theorem c11_sort_desc_is_the_stable_descending_sort : forall l,
  Permutation (sort_desc l) l /\
  StronglySorted (fun a b => (b <= a)%Q) (sort_desc l) /\
  forall q, equal_to q (sort_desc l) = equal_to q l.
Proof. intros l. split; [apply sort_desc_perm|]. split; [apply sort_desc_sorted | intros q; apply sort_desc_stable]. Qed.

Theorem c11_sort_asc_is_the_stable_ascending_sort : forall l,
  Permutation (sort_asc l) l /\
  StronglySorted Qle (sort_asc l) /\
  forall q, equal_to q (sort_asc l) = equal_to q l.
Proof. intros l. split; [apply sort_asc_perm|]. split; [apply sort_asc_sorted | intros q; apply sort_asc_stable]. Qed.

(** Every split of the value sequence into activation periods gives the same
    array: it is carried from one period to the next. *)
Theorem c11_any_split_into_periods : forall m n (periods : list (list value)) a,
  collect_seq m n a (List.concat periods) =
  fold_left (fun r p => match r with COk a' => collect_seq m n a' p | r => r end) periods (COk a).
Proof. exact collect_seq_periods. Qed.

(** Arrays built by collects never contain nil. *)
Theorem c11_collected_never_nil : forall m n xs a r,
  nil_free a = true -> collect_seq m n a xs = COk r -> nil_free r = true.
Proof. exact collected_never_nil. Qed.

(** * computes *)

(** A `computes` variable holds the latest non-nil value: nil results leave
    it alone. *)
Theorem c11_computes_latest : forall c y ts xs s,
  lookup_val y (s_vals (set_seq c s y xs ts)) = last (non_nil xs) (lookup_val y (s_vals s)).
Proof. exact computes_latest. Qed.

(** * processAssignments, clause by clause *)

(** The dependency gate: a clause one of whose variables was not assigned in
    this round is skipped. *)
Theorem c11_assignment_skipped_without_dependencies : forall c s ts a tl,
  has_deps s (as_expr a) = false -> do_assigns c s ts (a :: tl) = do_assigns c s ts tl.
Proof. exact assignment_skipped. Qed.

(** An evaluated `computes` clause is one [set_var] with the produced value. *)
Theorem c11_computes_step : forall c s ts a tl x,
  as_mode a = ASingle -> has_deps s (as_expr a) = true -> eval (env_of s) (as_expr a) = EV x ->
  do_assigns c s ts (a :: tl) =
  (let '(s1, o1) := set_var c s (target_of a) x ts in
   let '(s2, o2, stt) := do_assigns c s1 ts tl in (s2, o1 ++ o2, stt))
  /\ lookup_val (target_of a) (s_vals (fst (set_var c s (target_of a) x ts)))
     = (if is_nil x then lookup_val (target_of a) (s_vals s) else x).
Proof. exact computes_step. Qed.

(** An evaluated `collects` clause is exactly one collect step on the
    variable's current array with the produced value (so, over the rounds,
    [collect_seq] over the values the expression produced). *)
Theorem c11_collects_step : forall c s ts a tl x,
  as_mode a <> ASingle -> has_deps s (as_expr a) = true -> eval (env_of s) (as_expr a) = EV x ->
  do_assigns c s ts (a :: tl) =
  match collect (as_mode a) (cur_array (lookup_val (target_of a) (s_vals s))) (as_n a) x with
  | COk r => let '(s1, o1) := set_var c s (target_of a) (VArr r) ts in
             let '(s2, o2, stt) := do_assigns c s1 ts tl in (s2, o1 ++ o2, stt)
  | CErr => (s, [], Aborted)
  | CPanic => (s, [], Panicked)
  end.
Proof. exact collects_step. Qed.

(** * Visible to later members in the same round — and only to them *)

(** An executed assignment sets the variable AND activates it. *)
Theorem c11_assignment_sets_and_activates : forall c s ts a tl x v s' o stt,
  has_deps s (as_expr a) = true -> eval (env_of s) (as_expr a) = EV x ->
  assigned_value a (lookup_val (target_of a) (s_vals s)) x = Some (Some v) -> is_nil v = false ->
  Forall (fun a' => var_eqb (target_of a) (target_of a') = false) tl ->
  do_assigns c s ts (a :: tl) = (s', o, stt) ->
  lookup_val (target_of a) (s_vals s') = v /\ mem_var (target_of a) (s_act s') = true.
Proof. exact assignment_sets_and_activates. Qed.

(** After member [m] assigned [y := v] in a round, every later member [m']
    (behind any members [l1] that do not assign [y] themselves) is visited in
    a state where [y] has the value [v] and is activated ... *)
Theorem c11_visible_same_round : forall c final ts s m l1 m' l2 y v s1 o1 s2 o2,
  visit c final s ts m = (s1, o1, Running) ->
  lookup_val y (s_vals s1) = v -> mem_var y (s_act s1) = true ->
  (forall m0, In m0 l1 -> assigns_var m0 y = false) ->
  visit_all c final s1 ts l1 = (s2, o2, Running) ->
  lookup_val y (s_vals s2) = v /\ mem_var y (s_act s2) = true /\
  visit_all c final s ts (m :: l1 ++ m' :: l2) =
    (let '(s3, o3, st3) := visit_all c final s2 ts (m' :: l2) in (s3, o1 ++ o2 ++ o3, st3)).
Proof. exact visible_same_round. Qed.

(** ... so that its expressions mentioning [y] pass the dependency gate and
    read [v]. *)
Theorem c11_later_member_reads_it : forall s y v,
  lookup_val y (s_vals s) = v -> mem_var y (s_act s) = true ->
  has_deps s (EVar y) = true /\ eval (env_of s) (EVar y) = EV v.
Proof. exact later_member_reads_it. Qed.

(** The members standing before the owner of [y] are visited while [y] still
    has the value the previous round left: nothing of what the later members
    do in this round reaches them. *)
Theorem c11_not_visible_to_earlier : forall c final ts y l1 rest s,
  (forall m, In m l1 -> assigns_var m y = false) ->
  exists s1 o1 st1,
    visit_all c final s ts l1 = (s1, o1, st1) /\
    lookup_val y (s_vals s1) = lookup_val y (s_vals s) /\
    visit_all c final s ts (l1 ++ rest) =
      match st1 with
      | Running => let '(s2, o2, st2) := visit_all c final s1 ts rest in (s2, o1 ++ o2, st2)
      | stt => (s1, o1, stt)
      end.
Proof. exact not_visible_to_earlier. Qed.

(** The beginning of a round leaves a computed / collected variable's value
    and activation flag alone: an earlier member reads, in the next round, the
    value a later member assigned in this one. *)
Theorem c11_next_round_starts_from_it : forall c s ts vs y s4 o,
  user_var y = true -> (forall x v, In (x, v) vs -> fst x <> ""%string) ->
  prelude c s ts vs = (s4, o) ->
  lookup_val y (s_vals s4) = lookup_val y (s_vals s) /\ mem_var y (s_act s4) = mem_var y (s_act s)
  /\ forall a, auditing_in s4 a = auditing_in s a.
Proof. exact prelude_keeps. Qed.

Theorem c11_round_is_prelude_then_visits : forall c final s ts vs,
  round c final s ts vs =
  let '(s4, o) := prelude c s ts vs in
  let '(s5, o5, stt) := visit_all c final s4 ts (c_members c) in (s5, o ++ o5, stt).
Proof. exact round_eq. Qed.

(** * Kept across activation periods *)

(** In a round in which no owner of [y] is auditing — neither before the
    round nor after it — [y] keeps its value and its activation flag: only an
    auditing owner ever changes a variable, and nothing is reset when an
    auditor stops or restarts. *)
Theorem c11_kept_across_periods : forall c final s ts vs s' o stt y,
  NoDup (map m_name (c_members c)) -> user_var y = true ->
  (forall x v, In (x, v) vs -> fst x <> ""%string) ->
  round c final s ts vs = (s', o, stt) ->
  (forall m, In m (c_members c) -> assigns_var m y = true ->
             auditing_in s (m_name m) = false /\ auditing_in s' (m_name m) = false) ->
  lookup_val y (s_vals s') = lookup_val y (s_vals s) /\
  (mem_var y (s_act s) = true -> mem_var y (s_act s') = true).
Proof. exact kept_across_periods. Qed.

(** * End to end *)

(** [produced_rounds c s rs y] (Model/FunctionsSpec.v) lists the values the
    clauses targeting [y] produced over the rounds [rs]: for every round, for
    every auditor in declaration order that is active in that round (auditing
    already — its closing round included — or starting now) and whose
    activation condition's dependencies are fresh, for every clause of [y]
    whose own dependencies are fresh: the value of its expression in the state
    reached at that point.  For ANY sequence of rounds (any samples, mood
    changes, final rounds; whatever the other clauses do; also when the
    audition stops on an error): *)
Theorem c11_collected_over_any_rounds : forall c y md n rs s s' stt,
  md <> ASingle -> (1 <= n)%nat -> user_var y = true ->
  (forall m, In m (c_members c) -> clauses_ok (m_assigns m) y md n) ->
  (forall r, In r rs -> samples_have_actors (r_vs r)) ->
  lookup_val y (s_vals s) = VArr [] ->
  run_rounds c s rs = (s', stt) ->
  lookup_val y (s_vals s') = VArr (collected md n (produced_rounds c s rs y)).
Proof. exact collected_end_to_end. Qed.

Theorem c11_computed_over_any_rounds : forall c y rs s s' stt,
  user_var y = true ->
  (forall m, In m (c_members c) -> clauses_single (m_assigns m) y) ->
  (forall r, In r rs -> samples_have_actors (r_vs r)) ->
  run_rounds c s rs = (s', stt) ->
  lookup_val y (s_vals s') = last (non_nil (produced_rounds c s rs y)) (lookup_val y (s_vals s)).
Proof. exact computed_end_to_end. Qed.

(** Every event of the audit loop is zero, one or two such rounds ... *)
Theorem c11_events_are_rounds : forall c s e,
  let '(s', _, stt) := step_event c s e in run_rounds c s (event_rounds s e) = (s', stt).
Proof. exact step_event_rounds. Qed.

(** ... so, for every configuration and every event history that runs to its
    end: a `collects y as first|last|top|bottom N` variable holds exactly the
    first / last / N largest / N smallest non-nil values its expression
    produced while its auditor was active, and a `computes` variable the
    latest non-nil one. *)
Theorem c11_collected_variable_end_to_end : forall c es os s' y md n,
  md <> ASingle -> (1 <= n)%nat -> user_var y = true ->
  (forall m, In m (c_members c) -> clauses_ok (m_assigns m) y md n) ->
  signals_have_actors es ->
  lookup_val y (c_init c) = VArr [] ->
  run_audition c es = (os, s', Running) ->
  lookup_val y (s_vals s') =
  VArr (collected md n (produced_rounds c (init_st c) (audition_rounds c es) y)).
Proof. exact audition_collected. Qed.

Theorem c11_computed_variable_end_to_end : forall c es os s' y,
  user_var y = true ->
  (forall m, In m (c_members c) -> clauses_single (m_assigns m) y) ->
  signals_have_actors es ->
  run_audition c es = (os, s', Running) ->
  lookup_val y (s_vals s') =
  last (non_nil (produced_rounds c (init_st c) (audition_rounds c es) y)) (lookup_val y (c_init c)).
Proof. exact audition_computed. Qed.

(** * The array functions, over the non-nil elements *)

(** sum, avg, min, max, med of numbers / booleans (as 0/1) / nils: *)
Theorem c11_sum_spec : forall args, forallb scalar_or_nil args = true ->
  apply_fn "sum" args = match nums args with [] => FOk VNil | l => FOk (VNum (qsum l)) end.
Proof. exact sum_spec. Qed.

Theorem c11_sum_is_the_sum : forall l l',
  (qsum l == qsum_r l)%Q /\ (Permutation l l' -> (qsum_r l == qsum_r l')%Q).
Proof. intros l l'. split; [apply qsum_is_sum | apply qsum_r_perm]. Qed.

Theorem c11_avg_spec : forall args, forallb scalar_or_nil args = true ->
  apply_fn "avg" args = match nums args with
                        | [] => FOk VNil
                        | l => FOk (VNum (qsum l / inject_Z (Z.of_nat (List.length l))))
                        end.
Proof. exact avg_spec. Qed.

Theorem c11_min_spec : forall args, forallb scalar_or_nil args = true ->
  match nums args with
  | [] => apply_fn "min" args = FOk VNil
  | l => exists m, apply_fn "min" args = FOk (VNum m) /\ is_min m l
  end.
Proof. exact min_spec. Qed.

Theorem c11_max_spec : forall args, forallb scalar_or_nil args = true ->
  match nums args with
  | [] => apply_fn "max" args = FOk VNil
  | l => exists m, apply_fn "max" args = FOk (VNum m) /\ is_max m l
  end.
Proof. exact max_spec. Qed.

(** The median: the middle element of the sorted list, or the mean of the two
    middle ones; [qsort l] is [l] sorted. *)
Theorem c11_med_spec : forall args, forallb scalar_or_nil args = true ->
  match nums args with
  | [] => apply_fn "med" args = FOk VNil
  | l => exists r, apply_fn "med" args = FOk (VNum r) /\ median_of_sorted (qsort l) r
  end.
Proof. exact med_spec. Qed.

Theorem c11_qsort_sorts : forall l, Permutation (qsort l) l /\ sorted_le (qsort l).
Proof. intros l. split; [apply qsort_perm | apply qsort_sorted]. Qed.

(** nil elements do not count for them ... *)
Theorem c11_numeric_functions_ignore_nil : forall xs, nums (non_nil xs) = nums xs.
Proof. exact nums_non_nil. Qed.

(** ... an all-nil or empty input gives nil (count: 0) ... *)
Theorem c11_empty_input :
  apply_fn "count" [] = FOk (VNum 0) /\
  Forall (fun f => apply_fn f [] = FOk VNil)
         ["first"; "last"; "sorted"; "sum"; "avg"; "average"; "med"; "median"; "min"; "max";
          "abs"; "floor"; "ceil"; "round"]%string.
Proof. exact empty_input. Qed.

Theorem c11_all_nil_input : forall args f,
  forallb is_nil args = true ->
  In f ["sum"; "avg"; "average"; "med"; "median"; "min"; "max"]%string ->
  apply_fn f args = FOk VNil.
Proof. exact all_nil_input. Qed.

(** ... and a string or an array among the elements is an error. *)
Theorem c11_numeric_functions_refuse_strings : forall args f,
  forallb scalar_or_nil args = false ->
  In f ["sum"; "avg"; "average"; "med"; "median"; "min"; "max"]%string ->
  apply_fn f args = FErr.
Proof. exact numeric_fn_error. Qed.

(** count / first / last / sorted.  The property says "over the non-nil
    elements"; the code counts and returns nil elements.  The full statements
    are REFUTED (witness: the array (nil, 1); replayed on the real evaluator
    by the check as `count(first(e), 1)` = 2 with e an empty array — finding
    "nil-element-in-array-argument"); what holds is the statement for
    nil-free arrays — the only arrays a `collects` clause can build
    ([c11_collected_never_nil]) — so the discrepancy needs a nil inside an
    argument list. *)
Theorem c11_count_refuted :
  exists args, apply_fn "count" args <> FOk (VNum (inject_Z (Z.of_nat (List.length (non_nil args))))).
Proof. exact count_refuted. Qed.

Theorem c11_count_partial : forall args, nil_free args = true ->
  apply_fn "count" args = FOk (VNum (inject_Z (Z.of_nat (List.length (non_nil args))))).
Proof. exact count_partial. Qed.

Theorem c11_first_refuted : exists args, apply_fn "first" args <> FOk (hd VNil (non_nil args)).
Proof. exact first_refuted. Qed.

Theorem c11_first_partial : forall args, nil_free args = true ->
  apply_fn "first" args = FOk (hd VNil (non_nil args)).
Proof. exact first_partial. Qed.

Theorem c11_last_refuted : exists args, apply_fn "last" args <> FOk (last (non_nil args) VNil).
Proof. exact last_refuted. Qed.

Theorem c11_last_partial : forall args, nil_free args = true ->
  apply_fn "last" args = FOk (last (non_nil args) VNil).
Proof. exact last_partial. Qed.

Theorem c11_sorted_refuted : exists args, apply_fn "sorted" args <> FOk (sorted_result (non_nil args)).
Proof. exact sorted_refuted. Qed.

Theorem c11_sorted_partial : forall args, nil_free args = true ->
  apply_fn "sorted" args = FOk (sorted_result (non_nil args)).
Proof. exact sorted_partial. Qed.

(** [vsort] (in [sorted_result]) is a sorted permutation for sortArray's
    order (nils, scalars by value, strings, the rest). *)
Theorem c11_vsort_sorts : forall l,
  Permutation (vsort l) l /\ Sorted (fun a b => vless b a = false) (vsort l).
Proof. intros l. split; [apply vsort_perm | apply vsort_sorted]. Qed.

(** * The scalar functions *)

Theorem c11_abs_spec : forall x, apply_fn "abs" [VNum x] = FOk (VNum (Qabs x)).
Proof. exact abs_spec. Qed.

Theorem c11_floor_spec : forall x, exists z : Z,
  apply_fn "floor" [VNum x] = FOk (VNum (inject_Z z)) /\ (inject_Z z <= x < inject_Z (z + 1))%Q.
Proof. exact floor_spec. Qed.

Theorem c11_ceil_spec : forall x, exists z : Z,
  apply_fn "ceil" [VNum x] = FOk (VNum (inject_Z z)) /\ (inject_Z (z - 1) < x <= inject_Z z)%Q.
Proof. exact ceil_spec. Qed.

(** round: the nearest integer, halves away from zero. *)
Theorem c11_round_spec : forall x, exists z : Z,
  apply_fn "round" [VNum x] = FOk (VNum (inject_Z z)) /\
  ((0 <= x)%Q -> (x - (1 # 2) < inject_Z z <= x + (1 # 2))%Q) /\
  ((x < 0)%Q -> (x - (1 # 2) <= inject_Z z < x + (1 # 2))%Q).
Proof. exact round_spec. Qed.

Theorem c11_scalar_functions_of_nil : forall f, In f ["abs"; "floor"; "ceil"; "round"]%string ->
  apply_fn f [VNil] = FOk VNil /\ apply_fn f [] = FOk VNil.
Proof. exact scalar_fn_nil. Qed.

(** * Non-vacuity *)

(** The insertion order among equal values, the truncation, booleans as 0/1
    for top but kept by first, nil skipped. *)
Example c11_nonvacuous_collects :
  collect_seq ATop 3 [] [VNum 2; VNil; VBool true; VNum 5; VNum (4 # 2); VNum 1]
    = COk [VNum 5; VNum 2; VNum (4 # 2)] /\
  collect_seq ABottom 2 [] [VNum 2; VBool false; VNum (-1); VNil; VNum 0]
    = COk [VNum (-1); VNum 0] /\
  collect_seq AFirst 2 [] [VNil; VBool true; VNum 7; VNum 8] = COk [VBool true; VNum 7] /\
  collect_seq ALast 2 [] [VNum 1; VNil; VNum 2; VNum 3; VNil] = COk [VNum 2; VNum 3] /\
  collect_seq ATop 2 [] [VNum 1; VStr "up"] = CErr.
Proof. vm_compute. repeat split; reflexivity. Qed.

(** Two members, the later one reading in the same round what the earlier
    one collected; the earlier one reading, one round late, what the later one
    computed; values kept while the mood-based auditor is not auditing. *)
Definition ex11_cfg : acfg :=
  {| c_members :=
       [ {| m_name := "al"; m_cond := EBin OEq (EVar ("", "mood")%string) (EConst (VStr "red"));
            m_assigns := [ {| as_target := "u"; as_mode := ATop; as_n := 2; as_expr := EVar ("x", "s")%string |};
                           {| as_target := "late"; as_mode := ASingle; as_n := 0; as_expr := EVar ("", "cnt")%string |} ];
            m_expect := None |};
         {| m_name := "bo"; m_cond := EConst (VBool true);
            m_assigns := [ {| as_target := "cnt"; as_mode := ASingle; as_n := 0;
                              as_expr := ECall "count" [EVar ("", "u")%string] |} ];
            m_expect := None |} ];
     c_watchers := [(("x", "s"), ["al"]); (("", "mood"), ["al"]); (("", "u"), ["bo"]); (("", "cnt"), ["al"])]%string;
     c_init := [(("", "u")%string, VArr [])] |}.

Example c11_nonvacuous_chain :
  let '(_, s, stt) :=
    run_audition ex11_cfg
      [EMood 1 "red"; ESig 2 [(("x", "s")%string, VNum 3)]; ESig 3 [(("x", "s")%string, VNum 5)];
       EMood 4 "clear"; ESig 5 [(("x", "s")%string, VNum 9)];
       EMood 6 "red"; ESig 7 [(("x", "s")%string, VNum 4)]; EFinal 8] in
  stt = Running /\
  lookup_val ("", "u")%string (s_vals s) = VArr [VNum 5; VNum 4] /\     (* 9 arrived between the periods *)
  lookup_val ("", "cnt")%string (s_vals s) = VNum 2 /\
  lookup_val ("", "late")%string (s_vals s) = VNum 2.
Proof. vm_compute. repeat split; reflexivity. Qed.

Definition ex11_events : list event :=
  [EMood 1 "red"; ESig 2 [(("x", "s")%string, VNum 3)]; ESig 3 [(("x", "s")%string, VNum 5)];
   EMood 4 "clear"; ESig 5 [(("x", "s")%string, VNum 9)];
   EMood 6 "red"; ESig 7 [(("x", "s")%string, VNum 4)]; EFinal 8].

(** What the clauses produced in that history: 9 arrived while al was not
    auditing; bo's count is re-evaluated in every round once u is set. *)
Example c11_nonvacuous_produced :
  produced_rounds ex11_cfg (init_st ex11_cfg) (audition_rounds ex11_cfg ex11_events) ("", "u")%string
    = [VNum 3; VNum 5; VNum 4] /\
  List.length (audition_rounds ex11_cfg ex11_events) = 12%nat /\
  (last (produced_rounds ex11_cfg (init_st ex11_cfg) (audition_rounds ex11_cfg ex11_events) ("", "cnt")%string) VNil)
    = VNum 2.
Proof. vm_compute. repeat split; reflexivity. Qed.

Example c11_nonvacuous_functions :
  apply_fn "med" [VNum 4; VNil; VNum 1; VBool true; VNum 3] = FOk (VNum ((1 + 3) / 2)) /\
  apply_fn "avg" [VNum 1; VNil; VNum 2] = FOk (VNum ((0 + 1 + 2) / 2)) /\
  apply_fn "count" [VNil; VNum 1] = FOk (VNum 2) /\
  apply_fn "round" [VNum (-5 # 2)] = FOk (VNum (-3)) /\
  apply_fn "sum" [VNum 1; VStr "up"] = FErr.
Proof. vm_compute. repeat split; reflexivity. Qed.
