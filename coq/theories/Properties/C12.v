(** C12 — results land in one run directory, kept or erased as documented.
    Statements only; every proof is [exact <lemma>].

    About the code: [prepare_dirs] (prepareDirs), [run_end] (the deferred
    functions of run(), last registered first), [assemble_range]
    (expandTimeRange + assemble), [written] (the filepath.Join(cfg.dataDir, ...)
    sites).  [clean], [join], [abs_path], [rel_path] re-implement
    path/filepath and [resolve_link] the kernel's treatment of a symbolic link
    (".." resolved lexically: no other link on the way); they are compared with
    the real ones on every run (Corr/C12.v), not verified.
    Observed only (file-system walks after real plays): that nothing appears
    outside <output-dir>/<run id> and <output-dir>/latest, that the artifact
    tree of result.js and the plot scripts name existing files, that result.js
    parses. *)
From Shk Require Import Base.Prelude Model.Dirs Proofs.DirsProofs.
From Coq Require Import Strings.String.
Open Scope Z_scope.

(** <output-dir>/latest resolves to the run directory - for every current
    directory, every output directory (absolute, relative, nested, ".", with
    "." and ".." in it) and every run id that is a plain directory name. *)
Theorem c12_latest_resolves : forall cwd dataDir sub,
  p_abs cwd = true -> use_sub sub = true -> regular sub = true ->
  latest_resolves_to cwd (prepare_dirs dataDir sub) = abs_path cwd (d_run (prepare_dirs dataDir sub)).
Proof. exact latest_resolves. Qed.

(** ... the link's text being just the run id. *)
Theorem c12_latest_text : forall dataDir sub, use_sub sub = true -> regular sub = true ->
  d_target (prepare_dirs dataDir sub) = {| p_abs := false; p_comps := [sub] |} /\
  d_run (prepare_dirs dataDir sub) = join1 dataDir sub.
Proof.
  intros dataDir sub Hs Rs. rewrite (prepare_dirs_sub dataDir sub Hs Rs). cbv zeta. cbn [d_target d_run].
  split; [reflexivity|]. rewrite join1_comps by exact Rs. reflexivity.
Qed.

(** ... also when an earlier run into the same output directory left a
    `latest` behind, dangling (its run directory erased by --clear or by the
    user) or not: the entry is replaced, so the two statements above apply to
    the link the new run leaves. *)
Theorem c12_latest_always_replaced : forall before d, before <> AOther ->
  refresh_alias before d = Some (ALink (d_target d)).
Proof. exact alias_always_replaced. Qed.

(** Two runs into one output directory.  With the same run id (started
    within the same second) the second one is refused - it does not move into
    the first one's directory, whose result.js, artifacts and exit status stay
    its own.  With different ids, the end of the earlier run - erasing its own
    directory under --clear - leaves the later run's link alone. *)
Theorem c12_second_run_same_id_refused : forall id st st',
  start_run id st = Some st' -> start_run id st' = None.
Proof. exact second_run_same_id_refused. Qed.

Theorem c12_later_run_keeps_latest : forall a b st sa sb,
  bytes_eqb a b = false ->
  start_run a st = Some sa -> start_run b sa = Some sb ->
  alias_leads_to (end_run a true sb) = Some b.
Proof. exact later_run_keeps_latest. Qed.

(** Without a run id (tests and hooks only), absolute output directory. *)
Theorem c12_latest_resolves_nosub_partial : forall cwd dataDir sub,
  use_sub sub = false -> p_abs dataDir = true ->
  latest_resolves_to cwd (prepare_dirs dataDir sub) = abs_path cwd (d_run (prepare_dirs dataDir sub)) /\
  d_target (prepare_dirs dataDir sub) = {| p_abs := false; p_comps := [] |}.
Proof. exact latest_resolves_nosub_abs. Qed.
(* missing for the general no-run-id case: clean (cwd ++ clean d) = clean (cwd ++ d) for a relative d
   that starts with ".."; the command line always supplies a run id. *)

(** The text prepareDirs wrote before the fix (f07bf0c) - thisDataDir itself -
    made the statement false for a relative output directory: *)
Definition prepare_dirs_before_fix (dataDir : path) (subDir : bytes) : dirs :=
  let this := if use_sub subDir then join1 dataDir subDir else dataDir in
  {| d_run := this; d_alias := join1 dataDir (bs "latest"); d_target := this; d_target_rel := false |}.
Example c12_latest_before_fix_refuted :
  exists cwd dataDir sub, p_abs cwd = true /\ use_sub sub = true /\ regular sub = true /\
    latest_resolves_to cwd (prepare_dirs_before_fix dataDir sub)
      <> abs_path cwd (d_run (prepare_dirs_before_fix dataDir sub)) /\
    bytes_of_path (latest_resolves_to cwd (prepare_dirs_before_fix dataDir sub)) = bs "/w/out/out/20260930221636".
Proof.
  exists (path_of_bytes (bs "/w")), (path_of_bytes (bs "out")), (bs "20260930221636").
  vm_compute. repeat split; discriminate.
Qed.

(** Everything a run writes (the run directory being in the form filepath.Abs
    gives it, the names being plain file names) lies in the run directory. *)
Theorem c12_all_under_rundir : forall run ns, regular_form run -> names_ok ns ->
  forall p, In p (written run ns) -> inside run p = true.
Proof. exact all_under_rundir. Qed.

(** Nothing else going wrong: as long as the run directory survives, the
    artifacts directory survives iff the play was fouled or -k was given. *)
Theorem c12_artifacts_survive_iff : forall f fouled,
  let e := run_end f fouled no_mishap in
  rundir_survives e = true -> artifacts_survive e = (fouled || f_keep f).
Proof. exact artifacts_survive_iff. Qed.

(** The run directory is erased iff --clear (or an upload URL without an
    explicit --clear) was given and there was no foul. *)
Theorem c12_rundir_erased_iff : forall f fouled,
  e_rundir_removed (run_end f fouled no_mishap) = (remove_all f && negb fouled).
Proof. exact rundir_erased_iff. Qed.

Theorem c12_upload_implies_clear : forall f, f_upload f = true -> f_clear_given f = false -> remove_all f = true.
Proof. exact upload_implies_clear. Qed.

(** With failures after the play (plot, result files, upload) taken into
    account: erased iff asked to and the exit status is 0. *)
Theorem c12_rundir_erased_general : forall f fouled m,
  e_rundir_removed (run_end f fouled m) = (remove_all f && negb (e_exit_nonzero (run_end f fouled m))).
Proof. exact rundir_erased_general. Qed.

(** The Foul flag of result.js equals (exit status <> 0) when nothing fails
    after the play. *)
Theorem c12_foul_flag_is_exit_status : forall f fouled,
  e_foul_flag (run_end f fouled no_mishap) = e_exit_nonzero (run_end f fouled no_mishap).
Proof. exact foul_flag_is_exit_status. Qed.
(** ... and only then: a plot error after a clean play gives exit status 1
    with Foul = false (the flag is computed before plotting). *)
Example c12_foul_flag_with_plot_error :
  let e := run_end {| f_keep := false; f_clear := false; f_clear_given := false; f_upload := false; f_skip_plot := false |}
                   false {| m_plot := true; m_write := false; m_upload := false |} in
  e_foul_flag e = false /\ e_exit_nonzero e = true.
Proof. split; reflexivity. Qed.

(** The time range contains every instant it was expanded with, starts at or
    before 0 and spans at least one second. *)
Theorem c12_range_contains : forall unit instants, 0 < unit ->
  let '(lo, hi) := assemble_range unit instants in
  (forall t, In t instants -> lo <= t <= hi) /\ lo <= 0 /\ lo + unit <= hi.
Proof. exact range_contains. Qed.

(** The files named in result.js's artifact tree are exactly the files left
    once removeNonUploadableFiles has run, whatever the actors left in the run
    directory: `#name#` and `name~` files, fifos, sockets and devices are in
    neither; files below a directory with such a name are in both. *)
Theorem c12_listed_tree_is_what_survives : forall cs, listed_in cs = surviving_in cs.
Proof. exact listed_tree_is_what_survives. Qed.

(** The pinned code (before fix 7f842c1) listed files of any kind: a fifo
    left by an actor was named, then removed. *)
Example c12_pinned_listing_named_removed_fifo_refuted :
  exists cs, listed_in_pinned cs <> surviving_in cs /\
             listed_in_pinned cs = [[bs "artifacts"; bs "a"; bs "pipe1"]] /\ surviving_in cs = [] /\ listed_in cs = [].
Proof.
  exists [NDir (bs "artifacts") [NDir (bs "a") [NFile (bs "pipe1") KOther; NFile (bs "f~") KReg; NFile (bs "#x#") KReg]]].
  vm_compute. repeat split. discriminate.
Qed.

(** Non-vacuity. *)
Example c12_nonvacuous_link :
  let d := prepare_dirs (path_of_bytes (bs "a/b/out")) (bs "20260930221636") in
  bytes_of_path (d_target d) = bs "20260930221636" /\
  bytes_of_path (d_alias d) = bs "a/b/out/latest" /\
  bytes_of_path (latest_resolves_to (path_of_bytes (bs "/tmp/w")) d) = bs "/tmp/w/a/b/out/20260930221636".
Proof. vm_compute. repeat split. Qed.

Example c12_nonvacuous_table :
  let f k c := {| f_keep := k; f_clear := c; f_clear_given := c; f_upload := false; f_skip_plot := false |} in
  (* clean, no flag: artifacts go, the rest stays *)
  (artifacts_survive (run_end (f false false) false no_mishap) = false /\ rundir_survives (run_end (f false false) false no_mishap) = true) /\
  (* clean, -k *)
  artifacts_survive (run_end (f true false) false no_mishap) = true /\
  (* fouled, --clear: everything stays *)
  (artifacts_survive (run_end (f false true) true no_mishap) = true /\ e_exit_nonzero (run_end (f false true) true no_mishap) = true) /\
  (* clean, --clear -k: everything goes *)
  rundir_survives (run_end (f true true) false no_mishap) = false.
Proof. vm_compute. repeat split. Qed.

Example c12_nonvacuous_tree :
  let cs := [NDir (bs "artifacts") [NDir (bs "alice") [NFile (bs "file.txt") KReg; NFile (bs "backup~") KReg;
                                                          NFile (bs "#edit#") KReg; NFile (bs "#half~") KReg;
                                                          NDir (bs "old~") [NFile (bs "kept.txt") KSym; NFile (bs "sock") KOther]]];
             NFile (bs "result.js") KReg] in
  listed_in cs = [[bs "artifacts"; bs "alice"; bs "file.txt"]; [bs "artifacts"; bs "alice"; bs "old~"; bs "kept.txt"]; [bs "result.js"]].
Proof. vm_compute. repeat split. Qed.

Example c12_nonvacuous_range :
  assemble_range 1000 [250; -1988; 3250; 61] = (-1988, 3250) /\ assemble_range 1000 [30; 61] = (0, 1000) /\
  assemble_range 1000 [] = (0, 1000).
Proof. vm_compute. repeat split. Qed.
