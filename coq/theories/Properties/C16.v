(** C16 — Log entries survive formatting, decoding, rotation and garbage
    collection.  Statements only; every proof is [exact <lemma>].

    The round trip as the property states it (fields in their representable
    ranges, years 2000-2068, single-line message) is FALSE of the faithful
    model: [c16_round_trip_refuted].  What is proved is the round trip under
    [wf], whose clauses beyond the stated ranges are, each with the behaviour of
    the real code without it (all replayed by harness/c16, class "probe"):

    - [wf_unambiguous]  goroutine 0 (field omitted) and a file name "<digits>
      <more>": decoded as goroutine <digits>, file <more>.  The known finding
      (signature goroutine0-file-digits-space).
    - [wf_msg_trimmed]  the decoder applies strings.TrimSpace: leading/trailing
      white space of a message (ASCII blank, tab, CR, VT, FF, NBSP, U+0085,
      U+1680, U+2000-200A, U+2028/9, U+202F, U+205F, U+3000) is lost.
    - [wf_file_colon]   a colon in the file name: the file is cut at the colon
      ("a:3b.go" -> file "a", line 3, message "b.go:12  hello") or the entry is
      dropped altogether ("c:a.go").
    - [wf_file_nonempty] an empty file name: with a goroutine id the entry
      decodes as goroutine 0, file "<id> "; without one it is dropped.
    - [wf_file_nl]      a newline in the file name is harmless unless what
      follows looks like a header; the clause is sufficient, not necessary.
    - [wf_msg_nl] is the statement's own "single-line message" (a trailing
      newline is trimmed, a continuation line that looks like a header starts
      a new entry); sev/year/civil/gid/line ranges are the statement's own
      "representable ranges" (severity outside 1..4 prints as I, negative line
      as 0, goroutine <= 0 is omitted, year < 2000 prints as 00, year >= 2069
      parses as 19xx).
    Not in the model (see Model/LogCodec.v): an entry that, together with the
    header of the next one, exceeds bufio.MaxScanTokenSize (65536 bytes) is
    truncated by the real decoder and can swallow the following entry. *)
From Shk Require Import Base.Prelude Model.LogCodec Proofs.LogCodecProofs
  Model.LogRotate Proofs.LogRotateProofs.
From Coq Require Import Sorting.Sorted.
Open Scope Z_scope.

(** ** Codec *)

(** A formatted well-formed entry decodes to exactly itself, then EOF. *)
Theorem c16_decode_format : forall e, wf e -> decode_stream (format e) = ([e], 0).
Proof. exact decode_format. Qed.

(** ... also inside any concatenation, of any length. *)
Theorem c16_decode_concat : forall es,
  Forall wf es -> decode_stream (concat (map format es)) = (es, 0).
Proof. exact decode_concat. Qed.

(** ... also when a message holds the complete header of another entry [h]
    (any entry at all), with any text around it. *)
Theorem c16_header_like_text_harmless : forall es1 e es2 pre h post,
  Forall wf es1 -> wf e -> Forall wf es2 ->
  let m := pre ++ format_header h ++ post in
  no_byte nl m -> trim_space m = m ->
  decode_stream (concat (map format (es1 ++ set_msg e m :: es2))) = (es1 ++ set_msg e m :: es2, 0).
Proof. exact header_like_text_harmless. Qed.

(** The statement with only its own guards (and even with a non-empty,
    colon-free, single-line file name and a trimmed message) is false. *)
Theorem c16_round_trip_refuted :
  exists e, wf_stated e /\ e_file e <> [] /\ no_byte colon (e_file e) /\ no_byte nl (e_file e) /\
            trim_space (e_msg e) = e_msg e /\
            decode_stream (format e) <> ([e], 0).
Proof. exact round_trip_refuted. Qed.

(** ** Rotation *)

(** After any sequence of log operations, threshold changes and snapshots (no
    GC), for every message size, threshold, header size and clock, reading the
    files oldest first yields every logged message exactly once, in order. *)
Theorem c16_rotation_lossless : forall h m ops,
  0 <= h -> run_ok h (init_state [] m) ops -> no_gc ops = true ->
  readback (rrun h (init_state [] m) ops) = logged ops.
Proof. exact rotation_lossless. Qed.

(** In the property's words — "after a flush every message logged so far can be
    read back from the log files": [readback_disk] reads what is in the files,
    not what is still in the bufio.Writer. *)
Theorem c16_rotation_lossless_after_flush : forall h m ops,
  0 <= h -> run_ok h (init_state [] m) ops -> no_gc ops = true ->
  readback_disk (do_flush (rrun h (init_state [] m) ops)) = logged ops.
Proof. exact rotation_lossless_after_flush. Qed.

(** Flush(), in buffered or in sync mode, leaves nothing buffered ... *)
Theorem c16_flush_leaves_nothing_buffered : forall s,
  on_disk (do_flush s) = dir s /\ readback_disk (do_flush s) = readback s.
Proof. exact flush_leaves_nothing_buffered. Qed.

(** ... and in sync mode (entered through SetSync(true), which flushes) every
    write is in the file when the logging call returns, for every history. *)
Theorem c16_sync_mode_writes_through : forall h ops s, SyncInv s ->
  SyncInv (rrun h s ops) /\ (syncw (rrun h s ops) = true -> on_disk (rrun h s ops) = dir (rrun h s ops)).
Proof. exact sync_mode_writes_through. Qed.

(** Closing the file and re-opening it within the same second generates the
    name it already has: what is in it stays, header and new messages follow. *)
Theorem c16_reopen_same_name_appends : forall now h f tl s,
  dir s = f :: tl -> is_open s = false -> last_rot s = 0 -> 0 < now -> f_stamp f = now ->
  dir (do_rotate now h s) = mkFile now (f_size f + h) (f_msgs f) :: tl.
Proof. exact reopen_same_name_appends. Qed.

(** With GC runs interleaved and files already present: what is read back is
    what was there plus what was logged, minus a prefix (the oldest files). *)
Theorem c16_rotation_gc_history : forall h, 0 <= h -> forall ops s,
  run_ok h s ops -> Inv s ->
  Inv (rrun h s ops) /\
  exists dropped, dropped ++ readback (rrun h s ops) = readback s ++ logged ops /\
                  (no_gc ops = true -> dropped = []).
Proof. exact rotation_gc_history. Qed.

(** ** Garbage collection *)

(** The newest file (largest time stamp) always survives. *)
Theorem c16_gc_keeps_newest : forall b l n tl, sort_desc l = n :: tl ->
  In n l /\ (forall f, In f l -> f_stamp f <= f_stamp n) /\ exists rest, gc b l = n :: rest.
Proof. exact gc_keeps_newest. Qed.

(** Any other file survives exactly when the sizes from the newest down to and
    including it add up to less than the bound. *)
Theorem c16_gc_keeps_only_within_bound : forall b l n l1 f l2,
  NoDup (map f_stamp l) ->
  sort_desc l = n :: l1 ++ f :: l2 ->
  (In f (gc b l) <-> sum_sizes (n :: l1 ++ [f]) < b).
Proof. exact gc_keeps_only_within_bound. Qed.

(** GC never invents a file, and never removes the one being written. *)
Theorem c16_gc_incl : forall b l f, In f (gc b l) -> In f l.
Proof. exact gc_incl. Qed.

Theorem c16_gc_keeps_current : forall b s, Inv s -> is_open s = true ->
  exists cur rest rest', dir s = cur :: rest /\ dir (do_gc b s) = cur :: rest'.
Proof. exact gc_keeps_current. Qed.

(** ** Several programs in one directory *)

(** A logger lists by equality of the parsed program name: a name that properly
    extends the logger's prefix (the main logger's <program> vs a secondary
    logger's <program>-<name>; "audit" vs "audit-x") is another program. *)
Theorem c16_extended_program_name_not_listed : forall p c r f, is_prog p (mkD (p ++ c :: r) f) = false.
Proof. exact is_prog_extension. Qed.

(** GC of the logger with prefix [p], in a directory holding files of any
    programs, leaves every file of every other program in place ... *)
Theorem c16_gc_other_programs_untouched : forall p b d,
  filter (fun x => negb (is_prog p x)) (gc_dir p b d) = filter (fun x => negb (is_prog p x)) d.
Proof. exact gc_dir_other_programs_untouched. Qed.

(** ... and keeps, of its own files, exactly those [gc] selects among them:
    [c16_gc_keeps_newest] and [c16_gc_keeps_only_within_bound] then speak about
    the newest file and the cumulative sizes of THIS logger's files. *)
Theorem c16_gc_own_files : forall p b d, NoDup (map f_stamp (list_files p d)) ->
  forall f, In f (list_files p (gc_dir p b d)) <-> In f (gc b (list_files p d)).
Proof. exact gc_dir_own_files. Qed.

(** Host, user and process id in the file names play no part: leftovers of
    another process of the same program are counted and removed like the
    logger's own files. *)
Theorem c16_gc_ignores_host_user_pid : forall p b l, map n_d (gc_names p b l) = gc_dir p b (map n_d l).
Proof. exact gc_ignores_host_user_pid. Qed.

(** In a process with several loggers (distinct prefixes) a GC run of one
    changes no other logger's files. *)
Theorem c16_gc_other_loggers_unchanged : forall h p b q s ms,
  NoDup (map fst ms) -> In (q, s) ms -> q <> p -> In (q, s) (mstep h ms (MGc p b)).
Proof. exact mgc_other_loggers_unchanged. Qed.

(** ** Non-vacuity *)
Definition ex_entry : entry :=
  mkEntry 2 2068 12 31 23 59 59 999999 0 [x31; x32; x20] 0
          (* message: "I190304 05:06:07.123456 99 z.go:1  inner" *)
          [x49; x31; x39; x30; x33; x30; x34; x20; x30; x35; x3a; x30; x36; x3a; x30; x37; x2e;
           x31; x32; x33; x34; x35; x36; x20; x39; x39; x20; x7a; x2e; x67; x6f; x3a; x31;
           x20; x20; x69; x6e; x6e; x65; x72].

Example c16_wf_nonvacuous : wf ex_entry /\
  decode_stream (format ex_entry ++ format ex_entry) = ([ex_entry; ex_entry], 0).
Proof.
  assert (wf ex_entry) as W.
  { constructor; cbn; try (unfold max_int; lia); try no_byte_tac.
    - unfold valid_civil; cbn; lia.
    - discriminate.
    - reflexivity. }
  split; [exact W|].
  pose proof (c16_decode_concat [ex_entry; ex_entry]) as H. cbn [map concat] in H.
  rewrite app_nil_r in H. apply H. constructor; [exact W|]. constructor; [exact W|]. constructor.
Qed.

(** three rotations, then a GC that keeps the two newest files *)
Example c16_rotation_nonvacuous :
  let ops := [RLog 10 10 1 90; RLog 10 10 2 150; RLog 10 10 3 400; RSetMax 1000; RLog 11 11 4 90; RGc 900] in
  map (fun f => (f_stamp f, f_size f, f_msgs f)) (dir (rrun 100 (init_state [] 300) ops))
    = [(12, 590, [3; 4]); (11, 250, [2])]
  /\ map (fun f => (f_stamp f, f_size f, f_msgs f)) (dir (rrun 100 (init_state [] 300) (removelast ops)))
    = [(12, 590, [3; 4]); (11, 250, [2]); (10, 190, [1])].
Proof. vm_compute. split; reflexivity. Qed.

(** close and re-open in the same second (same name), then in a later one *)
Example c16_reopen_nonvacuous :
  let ops := [RLog 10 10 1 90; RClose; RLog 10 10 2 90; RClose; RLog 11 11 3 90] in
  run_ok 100 (init_state [] 1000) ops /\
  map (fun f => (f_stamp f, f_size f, f_msgs f)) (dir (rrun 100 (init_state [] 1000) ops))
    = [(11, 190, [3]); (10, 380, [1; 2])].
Proof. vm_compute. repeat split; try lia; repeat constructor; try lia; try discriminate. Qed.

(** buffered messages are not in the files until a flush; SetSync(true) flushes *)
Example c16_buffering_nonvacuous :
  let s := rrun 100 (init_state [] 1000) [RLog 10 10 1 90; RLog 10 10 2 90] in
  readback_disk s = [] /\ readback s = [1; 2] /\
  readback_disk (rstep 100 s (RSetSync true)) = [1; 2] /\
  readback_disk (rrun 100 s [RSetSync true; RLog 10 10 3 90]) = [1; 2; 3].
Proof. vm_compute. repeat split. Qed.

(** main logger "p", secondary loggers "p-a" and "p-a-x" in one directory: the
    main logger's GC with bound 0 keeps its newest file and nothing of the others
    goes away *)
Example c16_shared_directory_nonvacuous :
  let p := [x70] in let pa := [x70; x2d; x61] in let pax := [x70; x2d; x61; x2d; x78] in
  let d := [mkD pa (mkFile 5 100 [1]); mkD p (mkFile 9 100 [2]); mkD p (mkFile 7 100 [3]); mkD pax (mkFile 1 100 [4])] in
  map f_stamp (list_files p d) = [9; 7] /\ map f_stamp (list_files pa d) = [5] /\
  map (fun x => f_stamp (d_file x)) (gc_dir p 0 d) = [5; 9; 1] /\
  map (fun x => f_stamp (d_file x)) (gc_dir pa 0 d) = [5; 9; 7; 1].
Proof. vm_compute. repeat split. Qed.
