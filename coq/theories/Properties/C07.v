(** C07 — every play terminates, cleans up twice, leaves no process behind.
    Statements only; every proof is [exact <lemma>].

    Over the conductor LTS (Model/Conduct.v): states reachable by ANY sequence
    of labels — the four components terminating in any order with any result,
    conduct receiving them (its selects choosing any ready channel), a signal
    (quiesce) at any point, the audit re-check, the two cleanup phases — from
    [init h], [h] = "the prompter sits in a redirected command that never ends
    by itself".

    KNOWN FINDING "running-action-or-cleanup-not-interruptible": an action or
    cleanup command never observes its cancellation (its output pipe is at EOF
    from the start), so termination holds only if such commands end by
    themselves: [c07_conduct_terminates_partial] (h = false) and
    [c07_conduct_terminates_refuted] (h = true); likewise
    [c07_no_survivor_in_group] (interrupted commands) vs
    [c07_redirected_command_not_interruptible_refuted].
    Partial: process reaping, signal delivery and wall-clock bounds are OS
    behaviour, observed by the harness; a cleanup phase is one label (the
    per-actor commands of runForAllActors are not interleaved in the model);
    Go's select picking the timer although the context is cancelled (one more
    scene may slip through) is not modelled: [c07_no_scene_after_cancel_partial]. *)
From Shk Require Import Base.Prelude Model.Conduct Proofs.ConductProofs Model.Prompt Proofs.PromptProofs.

(** Termination, part 1: every step other than a scene start decreases
    [measure]; [measure (init h)] = 48 bounds their number in any run. *)
Theorem c07_conduct_step_bound : forall h ls s l s',
  run (init h) ls = Some s -> step s l = Some s' -> l <> LScene -> (measure s' < measure s)%nat.
Proof. exact step_decreases. Qed.

(** Termination, part 2 (fairness): as long as conduct has not returned, some
    label that conduct or the environment is OBLIGED to take is enabled —
    conduct's own receives, a cleanup phase ending, the prompter terminating,
    or a component terminating once cancelled / once its upstream terminated /
    once the stopper quiesces.  Under the hypothesis that commands end by
    themselves (h = false). *)
Theorem c07_conduct_terminates_partial : forall ls s,
  run (init false) ls = Some s -> returned s = None ->
  exists l s', obliged s l = true /\ step s l = Some s'.
Proof. exact progress. Qed.

(** ... and refuted without it: with a command that never ends there is a
    reachable state that has not returned and in which nothing can happen. *)
Theorem c07_conduct_terminates_refuted :
  exists ls s, run (init true) ls = Some s /\ returned s = None /\ forall l, step s l = None.
Proof. exact conduct_stuck_when_command_hangs. Qed.

(** Whenever conduct returns — on all orders, with or without a signal — the
    initial cleanup ran once, the final cleanup ran once iff the initial one
    succeeded, and never out of order (not before the initial one succeeded,
    not while the prompter had not terminated, none of them twice). *)
Theorem c07_cleanup_twice : forall h ls s e,
  run (init h) ls = Some s -> returned s = Some e ->
  g_cl1 s = true /\ g_cl2 s = g_cl1_ok s /\ g_bad_order s = false.
Proof. exact cleanup_twice. Qed.

(** A scene group starts only after a successful initial cleanup, before the
    final one, and never once the prompter is cancelled or the stopper
    quiesces (in the model, where the prompter's select gives the
    cancellation priority over the scene timer). *)
Theorem c07_no_scene_after_cancel_partial : forall h ls s s',
  run (init h) ls = Some s -> step s LScene = Some s' ->
  g_cl1_ok s = true /\ g_cl2 s = false /\ cP s = false /\ quiesce s = false.
Proof. exact scene_only_in_play. Qed.

(** The kill protocol (after commits 5238de7, c7b3a08): every INTERRUPTED
    command whose leader holds the output pipe while it lives (every spotlight
    script) leaves no process of its group behind — whichever processes
    ignore SIGHUP, whichever die by themselves — and Wait returns. *)
Theorem c07_no_survivor_in_group : forall g dies,
  pipe_open g = true -> leader_holds_pipe g = true ->
  any_alive (fst (cancel_cmd g dies)) = false /\ snd (cancel_cmd g dies) = true.
Proof. exact no_survivor_in_group. Qed.

(** Refuted for redirected commands (actions, cleanups): the cancellation is
    not observed, nothing is signalled, Wait does not return. *)
Theorem c07_redirected_command_not_interruptible_refuted :
  exists g, pipe_open g = false /\ any_alive (fst (cancel_cmd g [])) = true /\ snd (cancel_cmd g []) = false.
Proof. exact redirected_command_not_interruptible. Qed.

(** ... they leave nothing behind only if they end by themselves. *)
Theorem c07_redirected_command_partial : forall g dies,
  pipe_open g = false -> any_alive (apply_deaths g dies) = false ->
  any_alive (fst (cancel_cmd g dies)) = false /\ snd (cancel_cmd g dies) = true.
Proof. exact redirected_command_ends_by_itself. Qed.

(** The barrier of a scene ([wg.Wait] in runScene) always completes: for every
    mixture of line tasks started and line tasks REFUSED by a quiescing stopper
    (a termination signal landing between the prompter's last look at the
    stopper and the launch of the scene's lines), in every interleaving, the
    WaitGroup counter equals the number of tasks still running, and every line
    delivers exactly one value to errCh. *)
Theorem c07_scene_barrier_completes : forall ls s,
  wrun true wg_init ls = Some s ->
  wg_count s = Z.of_nat (wg_running s) /\ (wg_reported s + wg_running s = wg_launched s)%nat.
Proof. exact scene_barrier_completes. Qed.

(** ... which is what the compensating [wg.Done] of the refusal branch is for. *)
Theorem c07_scene_barrier_needs_refusal_done :
  exists ls s, wrun false wg_init ls = Some s /\ wg_running s = 0%nat /\ (wg_count s > 0)%Z.
Proof. exact scene_barrier_without_done_stuck. Qed.

(** The deferred collectErrors of a scene always finds a value in errCh: for
    every list of lines — mood-only lines whose hand-over to the audition fails
    (the prompter is cancelled while blocked there: runScene returns early) or
    not, actor lines started or refused — at least one value has been sent. *)
Theorem c07_scene_collect_never_blocks : forall ls, (1 <= errch_at_collect true ls)%nat.
Proof. exact collect_never_blocks. Qed.

(** ... because a mood-only line reports BEFORE its mood change. *)
Theorem c07_scene_collect_needs_report_first : exists ls, errch_at_collect false ls = 0%nat.
Proof. exact collect_blocks_without_report_first. Qed.

(** Non-vacuity: a spotlight fails in stage 1, everything is cancelled, the
    audit re-check adds a violation, the final cleanup fails; a play whose
    initial cleanup fails; a SIGHUP-ignoring background child whose leader
    dies on the SIGHUP. *)
Example c07_nonvacuous_cascade :
  exists s, run (init false) [LCleanup1 true; LScene; LFin CS EOther; LPick CS; LFinP false ECancel; LPick CP; LPick CS;
                              LFin CA ECancel; LPick CA; LFin CK ECancel; LPick CK; LPick CS; LPick CA; LPick CK;
                              LDefer true; LCleanup2 false] = Some s
            /\ returned s = Some EOther /\ g_cl2 s = true.
Proof. eexists. vm_compute. repeat split. Qed.
(** a signal while an action runs: the spotlight manager and the audition report
    nil ahead of the prompter; conduct notes them, keeps waiting for the prompter,
    then reads the (closed) channels in stage order, and returns nil. *)
Example c07_nonvacuous_later_stage_reports_first :
  exists s, run (init false) [LCleanup1 true; LScene; LQuiesce; LFin CS ENil; LPick CS; LFin CA ENil; LPick CA;
                              LFinP false ENil; LPick CP; LPick CS; LPick CA; LFin CK ENil; LPick CK;
                              LDefer false; LCleanup2 true] = Some s
            /\ returned s = Some ENil /\ g_cl2 s = true /\ wt s = mkW false false true.
Proof. eexists. vm_compute. repeat split. Qed.
Example c07_nonvacuous_cleanup_fails :
  exists s, run (init false) [LCleanup1 false] = Some s /\ returned s = Some EOther /\ g_cl2 s = false.
Proof. eexists. vm_compute. repeat split. Qed.
Example c07_nonvacuous_kill :
  cancel_cmd [mkProc true false true; mkProc true true true; mkProc true false true] []
  = ([mkProc false false true; mkProc false true true; mkProc false false true], true).
Proof. vm_compute. reflexivity. Qed.
