(** C17 — Retry loops respect their attempt and back-off bounds and stop when
    told.  Statements only; every proof is [exact <lemma>] (or a [vm_compute]
    witness for a refuted statement). *)
From Shk Require Import Base.Prelude Model.Retry Proofs.RetryProofs Proofs.RetryInv Proofs.RetryLts Proofs.RetryWma Corr.C17 Proofs.RetryFast.
Open Scope Z_scope.

(** ** The back-off: for every option set, attempt number and jitter draw *)

(** backoff n is min(InitialBackoff x Multiplier^n, MaxBackoff). *)
Theorem c17_backoff_is_capped_exponential : forall o n,
  (backoff o n == Qmin (inject_Z (init_backoff o) * multiplier o ^ n) (inject_Z (max_backoff o)))%Q.
Proof. exact backoff_is_min. Qed.

(** The delay lies in the randomisation band around it, in whole nanoseconds ... *)
Theorem c17_band : forall o n u,
  wf_opts o -> (0 <= u)%Q -> (u < 1)%Q -> lo o n <= retry_in o n u <= hi o n.
Proof. exact band. Qed.

(** ... where the band is what the property says: b - rf*b - 1 < delay < b + rf*b + 1. *)
Theorem c17_band_rational : forall o n u,
  wf_opts o -> (0 <= u)%Q -> (u < 1)%Q ->
  let b := backoff o n in let rf := rand_factor o in
  (b - rf * b - 1 < inject_Z (retry_in o n u))%Q /\ (inject_Z (retry_in o n u) < b + rf * b + 1)%Q.
Proof. exact band_Q. Qed.

Theorem c17_lower_edge_nonnegative : forall o n, wf_opts o -> 0 <= lo o n.
Proof. exact lo_nonneg. Qed.

(** The defaults of Start keep an option set inside the theorem's domain. *)
Theorem c17_defaults_well_formed : forall o, wf_opts o -> wf_opts (normalize o).
Proof. exact normalize_wf. Qed.

(** ** The loop: for every option set, every start (closer open or closed,
    context live or cancelled) and every label sequence *)

(** The first attempt is immediate: no time passes, no wait is armed. *)
Theorem c17_first_immediate : forall o u, u_ok u = true ->
  exists s', step (start o false false) (LCallNext u) = Some (s', OYield true) /\ g_now s' = 0 /\ ph s' = PIdle.
Proof. exact first_immediate. Qed.

(** The ghost counter counts exactly the attempts the observations show. *)
Theorem c17_attempts_counted : forall s l s' ob,
  step s l = Some (s', ob) ->
  match ob with
  | OYield true | OChan ChClosed | OChan (ChTimer _) => g_attempts s' = g_attempts s + 1
  | OYield false | OChan ChNil | ONone | OResetDone false => g_attempts s' = g_attempts s
  | OResetDone true => g_attempts s' = 0
  end.
Proof. exact attempts_counts. Qed.

(** Never more than MaxRetries+1 attempts between two effective Resets, with
    Next, NextCh or any mixture of them. *)
Theorem c17_at_most_max_plus_one : forall o c0 x0 s,
  reachable o c0 x0 s -> 0 < max_retries o -> g_attempts s <= max_retries o + 1.
Proof. exact at_most_max_plus_one. Qed.

(** An attempt that had to wait comes no earlier than the armed delay, which
    is retry_in of the current position, i.e. (by [c17_band]) no earlier than
    the lower edge; in a loop driven by Next alone the position of attempt
    number k (from 0) is k-1. *)
Theorem c17_attempt_not_early : forall o c0 x0 s l s',
  reachable o c0 x0 s -> step s l = Some (s', OYield true) ->
  (is_reset s = true /\ ph s = PIdle /\ g_now s' = g_now s) \/
  (is_reset s = false /\ cur s' = cur s + 1 /\ u_ok (g_u s) = true /\
   retry_in (normalize o) (cur s) (g_u s) <= g_now s' - g_call_at s' /\
   (g_clean s = true -> cur s = g_attempts s - 1)).
Proof. exact yield_not_early. Qed.

Theorem c17_attempt_not_before_lower_edge : forall o c0 x0 s l s',
  wf_opts o -> reachable o c0 x0 s -> step s l = Some (s', OYield true) -> is_reset s = false ->
  lo (normalize o) (cur s) <= g_now s' - g_call_at s'.
Proof. exact yield_not_before_lower_edge. Qed.

(** The delay Next arms is inside the band of the current position. *)
Theorem c17_armed_delay_in_band : forall o c0 x0 s d el f,
  wf_opts o -> reachable o c0 x0 s -> (ph s = PArmed d el f \/ ph s = PBlocked d el) ->
  lo (normalize o) (cur s) <= d <= hi (normalize o) (cur s).
Proof. exact armed_in_band. Qed.

(** The options (hence the whole schedule) are those given to Start, normalised,
    whatever the context — live, cancelled, or about to expire — and for ever. *)
Theorem c17_options_fixed : forall o c0 x0 s, reachable o c0 x0 s -> ropts s = normalize o.
Proof. exact options_fixed. Qed.

(** Reset (closer open, context live) brings back the state of a fresh Start,
    and from there every continuation behaves as from a fresh Start. *)
Theorem c17_reset_restores : forall o s,
  ropts s = normalize o -> ph s = PIdle -> closed s = false -> cancelled s = false ->
  exists s', step s LReset = Some (s', OResetDone true) /\
             core s' = core (start o false false) /\ g_attempts s' = 0 /\ g_clean s' = true.
Proof. exact reset_restores. Qed.

Theorem c17_reset_then_as_fresh : forall o s ls s1 os,
  ropts s = normalize o -> ph s = PIdle -> closed s = false -> cancelled s = false ->
  run s (LReset :: ls) = Some (s1, os) ->
  exists s2 os', os = OResetDone true :: os' /\ run (start o false false) ls = Some (s2, os') /\ core s1 = core s2.
Proof. exact reset_then_as_fresh. Qed.

(** Reset after the closer closed / the context was cancelled does nothing. *)
Theorem c17_reset_when_stopped : forall s,
  ph s = PIdle -> closed s || cancelled s = true -> step s LReset = Some (s, OResetDone false).
Proof. exact reset_when_stopped. Qed.

(** ** "No further attempt once the closer is closed or the context cancelled" *)

(** The full statement is FALSE of the faithful model.  Witness 1 (replayed on
    the real code, deterministic; KNOWN_FINDINGS attempt-after-close-following-reset):
    Next; Reset; close; Next yields.  Witness 2 (the select race, observed on
    the real code 55 times in 200000): the timer has fired and the closer is
    closed when the select polls; Go may pick the timer. *)
Theorem c17_no_attempt_after_close_refuted :
  exists ls l, yields_when_stopped witness_opts ls l = true /\ ls = [LCallNext 0; LReset; LCloserClosed] /\ l = LCallNext 0.
Proof. exact (ex_intro _ witness_reset (ex_intro _ (LCallNext 0) (conj witness_reset_yields (conj eq_refl eq_refl)))). Qed.

(** ... which refutes the statement
    [forall o c0 x0 s l s', reachable o c0 x0 s -> closed s || cancelled s = true ->
     step s l = Some (s', OYield true) -> False]. *)
Theorem c17_no_attempt_after_close_refuted_stmt : ~ no_attempt_after_stop.
Proof. exact no_attempt_after_stop_refuted. Qed.

(** Witness 2: the select race. *)
Theorem c17_no_attempt_after_close_refuted_race :
  yields_when_stopped witness_opts
    [LCallNext 0; LCallNext 0; LTick 500; LTimerFires; LCloserClosed] (LPoll (Some SelTimer)) = true.
Proof. exact witness_race_yields. Qed.

(** What does hold (the partial statement): closed or cancelled, an attempt is
    yielded only (a) by Next in the reset state, or (b) by a select that found
    its timer already fired when it polled.  MISSING with respect to the full
    statement: exactly these two exceptions. *)
Theorem c17_no_attempt_after_close_partial : forall o c0 x0 s l s',
  reachable o c0 x0 s -> closed s || cancelled s = true ->
  step s l = Some (s', OYield true) ->
  (exists u, l = LCallNext u /\ is_reset s = true /\ ph s = PIdle) \/
  (exists d el, l = LPoll (Some SelTimer) /\ ph s = PArmed d el true /\ d <= el).
Proof. exact no_attempt_after_close_partial. Qed.

(** Consequences: outside the two exceptions Next returns false; a select
    parked when the close / cancellation happens is ended by it; a select that
    polls after it never parks; and a false is always justified. *)
Theorem c17_stops_when_told : forall o c0 x0 s l s' b,
  reachable o c0 x0 s -> closed s || cancelled s = true -> is_reset s = false ->
  (forall d el, ph s <> PArmed d el true) ->
  step s l = Some (s', OYield b) -> b = false.
Proof. exact stops_when_told. Qed.

Theorem c17_close_while_waiting_stops : forall s d el,
  ph s = PBlocked d el ->
  (closed s = false -> exists s', step s LCloserClosed = Some (s', OYield false) /\ ph s' = PIdle) /\
  (cancelled s = false -> exists s', step s LCtxCancelled = Some (s', OYield false) /\ ph s' = PIdle).
Proof. exact close_while_blocked_stops. Qed.

Theorem c17_closed_select_does_not_park : forall s d el f s' ob,
  ph s = PArmed d el f -> closed s || cancelled s = true -> step s (LPoll None) = Some (s', ob) -> False.
Proof. exact closed_select_does_not_park. Qed.

Theorem c17_false_is_justified : forall s l s',
  step s l = Some (s', OYield false) ->
  max_reached_next s = true \/ closed s' = true \/ cancelled s' = true.
Proof. exact false_is_justified. Qed.

(** An oddity of the code, modelled as it is and not judged: NextCh computes
    its delay one position ahead of Next. *)
Theorem c17_nextch_one_position_ahead : forall s u s' d,
  step s (LCallNextCh u) = Some (s', OChan (ChTimer d)) ->
  d = retry_in (ropts s) (cur s + 1) u /\ cur s' = cur s + 1.
Proof. exact nextch_one_ahead. Qed.

Theorem c17_next_arms_current_position : forall s u s',
  step s (LCallNext u) = Some (s', ONone) ->
  exists el f, ph s' = PArmed (retry_in (ropts s) (cur s) u) el f /\ cur s' = cur s.
Proof. exact next_arms_current. Qed.

(** ** Zero and negative back-offs (Multiplier < 1 decayed below 1 ns,
    RandomizationFactor > 1): legal option sets outside [wf_opts].  All the
    control theorems above hold for them (none assumes [wf_opts]); stated
    explicitly: Next never hands out an attempt without going through its
    select, and a loop told to stop before the call refuses whenever the select
    looks before the runtime has fired the (already due) timer.  What the code
    does NOT guarantee — and the model does not claim — is a refusal when the
    runtime fires the due timer between time.After and the select
    ([c17_no_attempt_after_close_refuted_race], with no time passed). *)
Theorem c17_next_yields_only_through_select : forall s u s' ob,
  is_reset s = false -> step s (LCallNext u) = Some (s', ob) ->
  ob = OYield false \/
  (ob = ONone /\ ph s' = PArmed (retry_in (ropts s) (cur s) u) 0 false /\
   closed s' = closed s /\ cancelled s' = cancelled s).
Proof. exact next_yields_only_through_select. Qed.

Theorem c17_stopped_prompt_poll_refuses : forall s u s1 ob1,
  closed s || cancelled s = true -> is_reset s = false ->
  step s (LCallNext u) = Some (s1, ob1) ->
  ob1 = OYield false \/
  (ob1 = ONone /\ forall pick s2 ob2, step s1 (LPoll pick) = Some (s2, ob2) -> ob2 = OYield false).
Proof. exact stopped_prompt_poll_refuses. Qed.

Theorem c17_stopped_prompt_poll_enabled : forall s d el f,
  ph s = PArmed d el f -> closed s || cancelled s = true ->
  exists pick s', step s (LPoll (Some pick)) = Some (s', OYield false).
Proof. exact stopped_prompt_poll_enabled. Qed.

(** Non-vacuity: such delays exist (0 after 45 halvings of 1 us; negative and
    zero with a randomisation factor of 5), a decayed loop told to stop refuses,
    and the race needs no time to pass. *)
Example c17_nonvacuous_nonpositive_delays :
  retry_in decayed_opts 45 (1 # 2) = 0 /\ retry_in wide_opts 0 (1 # 10) = -2999999 /\ retry_in wide_opts 0 (2 # 5) = 0.
Proof. exact nonpositive_delays. Qed.

Example c17_nonvacuous_wide_stop :
  (exists s, run (start wide_opts false false)
      [LCallNext 0; LCloserClosed; LCallNext (1 # 10); LPoll (Some SelCloser)] =
    Some (s, [OYield true; ONone; ONone; OYield false])) /\
  (exists s, run (start wide_opts false false)
      [LCallNext 0; LCloserClosed; LCallNext (1 # 10); LTimerFires; LPoll (Some SelTimer)] =
    Some (s, [OYield true; ONone; ONone; ONone; OYield true])).
Proof. split; eexists; vm_compute; reflexivity. Qed.

(** The correspondence reaches schedule positions of several hundred (and a
    few thousand) through [Corr.C17.skip_nextch], which does not evaluate
    retryIn on the way: it is the state component of the model's NextCh step. *)
Theorem c17_deep_position_shortcut_is_nextch : forall s u,
  u_ok u = true -> ph s = PIdle ->
  exists ob, step s (LCallNextCh u) = Some (skip_nextch s u, ob).
Proof. exact skip_nextch_is_step. Qed.

(** ... and it evaluates a sample without big-number division: the fast check
    of Corr.C17 is the model's [jitter], within the 1 ns of tolerance. *)
Theorem c17_fast_sample_is_model : forall b rf k x,
  near_trunc (fma (fast_base b rf) (fast_span b rf) k) x = near (jitter b rf (u_of k)) x.
Proof. exact fast_sample_is_model. Qed.

(** ** WithMaxAttempts (as repaired by /repo commit 7eb790f): for every n >= 1,
    every success pattern [succ], every start and every label sequence: when
    it returns, fn was called at most n times, at least once if the closer was
    open and the context live at the start, the result is nil iff a call
    succeeded, and without a call the result is an error. *)
Theorem c17_with_max_attempts : forall succ o n c0 x0 w r,
  1 <= n -> wreachable succ o n c0 x0 w -> wpc_ w = WDone r ->
  0 <= wcalls w <= n /\
  (c0 || x0 = false -> 1 <= wcalls w) /\
  (r = WNil <-> exists k, 0 <= k < wcalls w /\ succ k = true) /\
  (wcalls w = 0 -> r = WErr).
Proof. exact with_max_attempts. Qed.

(** ... and never more than n calls at any moment. *)
Theorem c17_with_max_attempts_calls_le_n : forall succ o n c0 x0 w,
  1 <= n -> wreachable succ o n c0 x0 w -> 0 <= wcalls w <= n.
Proof. exact wma_calls_le_n. Qed.

(** n <= 0: an error without a call. *)
Theorem c17_with_max_attempts_bad_n : forall succ o n c0 x0 w,
  n <= 0 -> wreachable succ o n c0 x0 w -> w = wstart o n c0 x0 /\ wpc_ w = WArgError /\ wcalls w = 0.
Proof. exact wma_bad_n. Qed.

(** Closer closed or context cancelled before the start: no call at all (and,
    by [c17_with_max_attempts], an error) — unless a select polled with its
    timer already fired (the race of the partial statement above). *)
Theorem c17_with_max_attempts_stopped_before : forall succ o n c0 x0 ls w,
  c0 || x0 = true -> ~ In (LPoll (Some SelTimer)) ls ->
  wrun succ (wstart o n c0 x0) ls = Some w -> wcalls w = 0.
Proof. exact closed_start_never_calls. Qed.

(** ** Non-vacuity *)
Definition c17_opts1 : opts :=
  {| init_backoff := 1000; max_backoff := 3000; multiplier := 2; max_retries := 2; rand_factor := 1 # 4 |}.

Example c17_nonvacuous_band :
  wf_opts c17_opts1 /\
  map (backoff c17_opts1) [0; 1; 2; 3] = [1000 # 1; 2000 # 1; 3000 # 1; 3000 # 1]%Q /\
  map (lo c17_opts1) [0; 1; 2] = [750; 1500; 2250] /\ map (hi c17_opts1) [0; 1; 2] = [1250; 2500; 3750] /\
  retry_in c17_opts1 1 0 = 1500 /\ retry_in c17_opts1 1 (1 # 2) = 2000 /\ retry_in c17_opts1 1 (999 # 1000) = 2499.
Proof. split; [unfold wf_opts, Qle; cbn; lia | vm_compute; repeat split]. Qed.

(** A run with MaxRetries = 2 that yields exactly 3 attempts, the waits at
    their armed delays, then refuses. *)
Example c17_nonvacuous_loop :
  exists s, run (start c17_opts1 false false)
      [LCallNext 0; LCallNext 0; LPoll None; LTick 750; LTimerFires;
       LCallNext (1 # 2); LTick 2000; LTimerFires; LPoll (Some SelTimer); LCallNext 0] =
    Some (s, [OYield true; ONone; ONone; ONone; OYield true; ONone; ONone; ONone; OYield true; OYield false]) /\
    g_attempts s = 3 /\ cur s = 2 /\ g_now s = 2750.
Proof. eexists. vm_compute. repeat split. Qed.

(** A wait ended by the context: parked select, then cancellation. *)
Example c17_nonvacuous_cancel :
  exists s, run (start c17_opts1 false false)
      [LCallNext 0; LCallNext 0; LPoll None; LTick 10; LCtxCancelled; LCallNext 0; LPoll (Some SelCtx); LReset] =
    Some (s, [OYield true; ONone; ONone; ONone; OYield false; ONone; OYield false; OResetDone false]).
Proof. eexists. vm_compute. repeat split. Qed.

(** WithMaxAttempts 3 with pattern fail, fail, success: three calls, nil; with
    n = 1 and a failing function: one call, error. *)
Example c17_nonvacuous_wma :
  (exists w, wrun (fun k => k =? 2) (wstart c17_opts1 3 false false)
      [LCallNext 0; LCallNext 0; LTick 750; LTimerFires; LPoll (Some SelTimer);
       LCallNext 0; LTick 1500; LTimerFires; LPoll (Some SelTimer)] = Some w /\
     wcalls w = 3 /\ wpc_ w = WDone WNil) /\
  (exists w, wrun (fun _ => false) (wstart c17_opts1 1 false false) [LCallNext 0] = Some w /\
     wcalls w = 1 /\ wpc_ w = WDone WErr) /\
  (exists w, wrun (fun _ => true) (wstart c17_opts1 3 true false) [LCallNext 0; LPoll (Some SelCloser)] = Some w /\
     wcalls w = 0 /\ wpc_ w = WDone WErr).
Proof. repeat split; eexists; vm_compute; repeat split. Qed.
