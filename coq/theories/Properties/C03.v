(** C03 — Exit status and foul flag follow the documented interpretation
    rules.  Statements only; proofs in Proofs/VerdictProofs.v. *)
From Shk Require Import Base.Prelude Model.Verdict Proofs.VerdictProofs.
From Coq Require Import String.
Open Scope list_scope.

(** Interpretation: whatever the sequence of clauses (including the
    auditor-less shorthand and members first mentioned later in the file), the
    setting of every (auditor, result) pair is the one the pair's own history
    yields: default when the auditor is first mentioned, then the latest
    applicable clause. *)
Theorem c03_interpretation_per_pair : forall a r is cfg,
  interp [] is = Some cfg -> setting a r cfg = track a r is.
Proof. exact interp_tracks. Qed.

Theorem c03_last_clause_wins : forall a r is m,
  track a r is <> None -> track a r (is ++ [ISet m a r]) = Some m.
Proof. exact last_clause_wins. Qed.

Theorem c03_last_shorthand_wins : forall a r is,
  track a r is <> None -> track a r (is ++ [IIgnoreAll r]) = Some FIgnore.
Proof. exact last_shorthand_wins. Qed.

Theorem c03_other_pairs_untouched : forall a r is m b r',
  (a, r) <> (b, r') -> track a r (is ++ [ISet m b r']) = track a r is.
Proof. exact other_pair_untouched. Qed.

(** The audit verdict is non-nil exactly in the documented cases: an
    evaluation error, or an auditor that has data and a `foul upon` result that
    occurred or a `require` result that did not. *)
Theorem c03_fouled_iff_documented : forall cfg t,
  NoDup (map fst cfg) -> (fouled cfg t = true <-> documented_foul cfg t).
Proof. exact fouled_iff_documented. Qed.

(** -S never turns a foul into a success (nor the converse): for every
    interpretation and every stream of reports. *)
Theorem c03_early_exit_never_changes_the_verdict : forall cfg rs t_full t_early stopped stx,
  collector_run cfg false tally0 rs = (t_full, stx) ->
  collector_run cfg true tally0 rs = (t_early, stopped) ->
  (stopped = true -> fouled cfg t_early = true /\ fouled cfg t_full = true) /\
  (stopped = false -> t_early = t_full).
Proof. exact early_exit_never_changes_the_verdict. Qed.

(** The error funnel of conduct, for every order in which the four components
    finish and every mix of cancellations with real errors. *)
Theorem c03_funnel_keeps_audit_verdict : forall sc o verdict cleanup,
  exit_nonzero verdict = true -> exit_nonzero (conduct_result sc o verdict cleanup) = true.
Proof. exact funnel_keeps_audit_verdict. Qed.

Theorem c03_funnel_keeps_cleanup_failure : forall sc o verdict cleanup,
  exit_nonzero cleanup = true -> exit_nonzero (conduct_result sc o verdict cleanup) = true.
Proof. exact funnel_keeps_cleanup_failure. Qed.

Theorem c03_funnel_keeps_component_errors : forall sc o verdict cleanup x,
  exit_nonzero (comp_err o x) = true -> is_last KCancel (comp_err o x) = false ->
  exit_nonzero (conduct_result sc o verdict cleanup) = true.
Proof. exact funnel_keeps_component_errors. Qed.

Theorem c03_funnel_no_spurious_foul : forall sc o verdict cleanup,
  exit_nonzero (conduct_result sc o verdict cleanup) = true ->
  exit_nonzero verdict = true \/ exit_nonzero cleanup = true \/ exists x, exit_nonzero (comp_err o x) = true.
Proof. exact funnel_no_spurious_foul. Qed.

(** Within a component, the results of concurrent commands are combined
    without loss, in any completion order. *)
Theorem c03_collect_errors_keeps_failures : forall rs,
  exit_nonzero (collect_errors rs) = existsb exit_nonzero rs.
Proof. exact collect_errors_keeps_failures. Qed.

(** The full statement "every component error reaches the exit status" is
    false of the faithful model: an error whose LAST cause is a cancellation is
    taken for a cancellation and dropped when its component is not the first
    to finish (errorCollection.Unwrap returns the last element).  The theorem
    above is the proved part; this is the witness. *)
Theorem c03_funnel_every_component_error_kept_refuted :
  exists sc o, exit_nonzero (o_a o) = true /\
               existsb (fun k => match k with KReal => true | _ => false end) (o_a o) = true /\
               conduct_result sc o [] [] = [].
Proof. exact funnel_drops_cancel_last_refuted. Qed.

(** Non-vacuity. *)
Example c03_nonvacuous :
  interp [] [IMember "al"; IMember "bo"; ISet FZero "al" RGood; IIgnoreAll RBad; IMember "cy"; ISet FNonZero "bo" RBad]%string
  = Some [("al", (FIgnore, FZero)); ("bo", (FNonZero, FIgnore)); ("cy", (FNonZero, FIgnore))]%string
  /\ fouled [("al", (FIgnore, FZero))]%string (fst (collector_run [("al", (FIgnore, FZero))]%string false tally0 [("al", 2); ("al", 3)]%string%Z)) = true
  /\ fouled [("al", (FIgnore, FZero))]%string (fst (collector_run [("al", (FIgnore, FZero))]%string false tally0 [("al", 2); ("al", 0)]%string%Z)) = false
  /\ conduct_result SchP_S_A {| o_p := []; o_s := []; o_a := []; o_c := [KAudit; KCancel] |} [KAudit] [] = [KAudit].
Proof. vm_compute. repeat split. Qed.
