(** C03 — Exit status and foul flag follow the documented interpretation
    rules.  Statements only; proofs in Proofs/VerdictProofs.v. *)
From Shk Require Import Base.Prelude Model.Verdict Proofs.VerdictProofs Model.RunStage Proofs.RunStageProofs.
From Coq Require Import String.
Open Scope list_scope.

(** Interpretation: whatever the sequence of clauses (including the
    auditor-less shorthand and members first mentioned later in the file), the
    setting of every (auditor, result) pair is the one the pair's own history
    yields: default when the auditor is first mentioned, then the latest
    applicable clause. *)
Theorem c03_interpretation_per_pair : forall a r is cfg,
  interp [] is = Some cfg -> setting a r cfg = track a r is.
Proof. exact interp_tracks. Qed.

Theorem c03_last_clause_wins : forall a r is m,
  track a r is <> None -> track a r (is ++ [ISet m a r]) = Some m.
Proof. exact last_clause_wins. Qed.

Theorem c03_last_shorthand_wins : forall a r is,
  track a r is <> None -> track a r (is ++ [IIgnoreAll r]) = Some FIgnore.
Proof. exact last_shorthand_wins. Qed.

Theorem c03_other_pairs_untouched : forall a r is m b r',
  (a, r) <> (b, r') -> track a r (is ++ [ISet m b r']) = track a r is.
Proof. exact other_pair_untouched. Qed.

(** The audit verdict is non-nil exactly in the documented cases: an
    evaluation error, or an auditor that has data and a `foul upon` result that
    occurred or a `require` result that did not. *)
Theorem c03_fouled_iff_documented : forall cfg t,
  NoDup (map fst cfg) -> (fouled cfg t = true <-> documented_foul cfg t).
Proof. exact fouled_iff_documented. Qed.

(** -S never turns a foul into a success (nor the converse): for every
    interpretation and every stream of reports. *)
Theorem c03_early_exit_never_changes_the_verdict : forall cfg rs t_full t_early stopped stx,
  collector_run cfg false tally0 rs = (t_full, stx) ->
  collector_run cfg true tally0 rs = (t_early, stopped) ->
  (stopped = true -> fouled cfg t_early = true /\ fouled cfg t_full = true) /\
  (stopped = false -> t_early = t_full).
Proof. exact early_exit_never_changes_the_verdict. Qed.

(** The error funnel of conduct, for every order in which the four components
    finish and every mix of cancellations with real errors. *)
Theorem c03_funnel_keeps_audit_verdict : forall ch o verdict cleanup,
  exit_nonzero verdict = true -> exit_nonzero (conduct_result true ch o verdict cleanup) = true.
Proof. exact (funnel_keeps_audit_verdict true). Qed.

Theorem c03_funnel_keeps_cleanup_failure : forall ch o verdict cleanup,
  exit_nonzero cleanup = true -> exit_nonzero (conduct_result true ch o verdict cleanup) = true.
Proof. exact (funnel_keeps_cleanup_failure true). Qed.

Theorem c03_funnel_keeps_component_errors : forall ch o verdict cleanup x,
  exit_nonzero (comp_err o x) = true -> is_last KCancel (comp_err o x) = false ->
  exit_nonzero (conduct_result true ch o verdict cleanup) = true.
Proof. exact (funnel_keeps_component_errors true). Qed.

Theorem c03_funnel_no_spurious_foul : forall ch o verdict cleanup,
  exit_nonzero (conduct_result true ch o verdict cleanup) = true ->
  exit_nonzero verdict = true \/ exit_nonzero cleanup = true \/ exists x, exit_nonzero (comp_err o x) = true.
Proof. exact (funnel_no_spurious_foul true). Qed.

(** Whatever the selects of the four shutdown stages choose, every component's
    error channel is read exactly once that finds its value. *)
Theorem c03_conduct_reads_each_component_once : forall ch o,
  NoDup (map fst (sh_reads (conduct_run true ch o))) /\ forall x, In x (map fst (sh_reads (conduct_run true ch o))).
Proof. exact (conduct_reads_each_component_once true). Qed.

(** conduct cancels the collector (which drops the reports queued for it, and
    the verdict with them) only after another component has delivered an
    error — for every order in which the components end. *)
Theorem c03_collector_cancelled_only_after_a_failure : forall ch o,
  In CC (sh_cancelled (conduct_run true ch o)) -> exists x, x <> CC /\ comp_err o x <> [].
Proof. exact collector_cancelled_only_after_a_failure. Qed.

(** So a play whose commands and expressions do not fail exits by the verdict
    over ALL the auditors' reports. *)
Theorem c03_failure_free_play_exits_by_the_verdict : forall ch cfg rs t st,
  collector_run cfg false tally0 rs = (t, st) ->
  let o := {| o_p := []; o_s := []; o_a := []; o_c := verdict_err cfg t |} in
  ~ In CC (sh_cancelled (conduct_run true ch o)) /\
  exit_nonzero (conduct_result true ch o (verdict_err cfg t) []) = fouled cfg t.
Proof. exact failure_free_play_exits_by_the_verdict. Qed.

(** This was false of the code as pinned (model with fixed = false): the
    audition ending before the spotlight supervisor had reported made the
    second stage cancel the collector; repaired in /repo (see KNOWN_FINDINGS). *)
Theorem c03_pinned_code_cancelled_the_collector_refuted :
  exists ch o, o_p o = [] /\ o_s o = [] /\ o_a o = [] /\ In CC (sh_cancelled (conduct_run false ch o)).
Proof. exact pinned_code_cancelled_the_collector_refuted. Qed.

(** Within a component, the results of concurrent commands are combined
    without loss, in any completion order. *)
Theorem c03_collect_errors_keeps_failures : forall rs,
  exit_nonzero (collect_errors rs) = existsb exit_nonzero rs.
Proof. exact collect_errors_keeps_failures. Qed.

(** The full statement "every component error reaches the exit status" is
    false of the faithful model: an error whose LAST cause is a cancellation is
    taken for a cancellation and dropped when its component is not the first
    to finish (errorCollection.Unwrap returns the last element).  The theorem
    above is the proved part; this is the witness. *)
Theorem c03_funnel_every_component_error_kept_refuted :
  exists ch o, exit_nonzero (o_a o) = true /\
               existsb (fun k => match k with KReal => true | _ => false end) (o_a o) = true /\
               conduct_result true ch o [] [] = [].
Proof. exact funnel_drops_cancel_last_refuted. Qed.

(** Non-vacuity. *)
Example c03_nonvacuous :
  interp [] [IMember "al"; IMember "bo"; ISet FZero "al" RGood; IIgnoreAll RBad; IMember "cy"; ISet FNonZero "bo" RBad]%string
  = Some [("al", (FIgnore, FZero)); ("bo", (FNonZero, FIgnore)); ("cy", (FNonZero, FIgnore))]%string
  /\ fouled [("al", (FIgnore, FZero))]%string (fst (collector_run [("al", (FIgnore, FZero))]%string false tally0 [("al", 2); ("al", 3)]%string%Z)) = true
  /\ fouled [("al", (FIgnore, FZero))]%string (fst (collector_run [("al", (FIgnore, FZero))]%string false tally0 [("al", 2); ("al", 0)]%string%Z)) = false
  /\ conduct_result true [CP; CS; CA] {| o_p := []; o_s := []; o_a := []; o_c := [KAudit; KCancel] |} [KAudit] [] = [KAudit].
Proof. vm_compute. repeat split. Qed.

(** "... or a directory/upload operation failed": the end of [run] (plot
    scripts, removal of the artifacts, result.js, index.html, upload, --clear;
    Model/RunStage.v), for every combination of flags, every set of failing
    operations and every error returned by the play: the error [run] returns
    is exactly the play's own error followed by the failure of every operation
    that was executed and failed — nothing dropped, nothing invented ... *)
Theorem c03_run_keeps_every_failure : forall f fails play,
  fst (run_stage f fails play) = play ++ flat_map (op_err fails) (snd (run_stage f fails play)).
Proof. exact run_result_exact. Qed.

(** ... so the exit status is non-zero exactly when the play failed or an
    executed directory / upload operation failed. *)
Theorem c03_run_exit_iff_play_or_operation_failed : forall f fails play,
  run_exit_nonzero f fails play = true <->
  play <> [] \/ exists d, In d (snd (run_stage f fails play)) /\ fails d = true.
Proof. exact run_exit_iff. Qed.

(** Which operations are executed: the upload exactly when the play was not
    interrupted by a signal; --clear only after a play without error whose
    every other operation succeeded; the artifacts are removed exactly after a
    play and plot without error, unless -k or --clear. *)
Theorem c03_upload_iff_not_interrupted : forall f fails play,
  In DUpload (snd (run_stage f fails play)) <-> is_interrupted play = false.
Proof. exact upload_iff_not_interrupted. Qed.

Theorem c03_clear_only_on_success : forall f fails play,
  In DRmAll (snd (run_stage f fails play)) ->
  f_clear f = true /\ play = [] /\
  forall d, d <> DRmAll -> In d (snd (run_stage f fails play)) -> fails d = false.
Proof. exact clear_only_on_success. Qed.

Theorem c03_artifacts_removed_iff : forall f fails play,
  In DRmArtifacts (snd (run_stage f fails play)) <->
  play = [] /\ (f_noplot f = true \/ fails DPlot = false) /\ f_clear f = false /\ f_keep f = false.
Proof. exact artifacts_removed_iff. Qed.

(** Both halves together: whatever conduct's funnel returns ([e], e.g.
    [conduct_result true ch o verdict cleanup]), the process exits non-zero
    exactly when that error is non-nil or an executed directory / upload
    operation failed. *)
Theorem c03_exit_iff_funnel_error_or_operation_failed : forall f fails intr e,
  run_exit_nonzero f fails (lift_err intr e) = true <->
  exit_nonzero e = true \/
  exists d, In d (snd (run_stage f fails (lift_err intr e))) /\ fails d = true.
Proof. exact whole_exit_iff. Qed.

Example c03_run_nonvacuous :
  run_stage {| f_clear := true; f_keep := false; f_noplot := false |}
            (fun d => dop_eqb d DRmAll) [] =
    ([ROp DRmAll], [DPlot; DWriteResult; DWriteHtml; DUpload; DRmAll]) /\
  run_stage {| f_clear := false; f_keep := false; f_noplot := true |}
            (fun d => dop_eqb d DWriteHtml) [RPlay true] =
    ([RPlay true; ROp DWriteHtml], [DWriteResult; DWriteHtml]).
Proof. vm_compute. split; reflexivity. Qed.
