(** C15 -- The stopper drains tasks, then workers, then closers, and refuses
    late work.  Statements only; every proof is [exact <lemma>].

    The model (Model/Stopper.v) is a labelled transition system whose labels
    are the mutex regions and channel / WaitGroup operations of stopper.go;
    [reachable caps s] quantifies over every label sequence, i.e. over every
    interleaving of any number of RunTask / RunAsyncTask /
    RunLimitedAsyncTask / RunWorker / AddCloser / WithCancelOn* / Stop /
    Quiesce calls, for any semaphore capacities [caps].  History variables
    ([*_at], [g_*]) hold the step number at which something happened.

    Partial in one respect, stated by [c15_workers_done_before_stopped] and
    witnessed by [c15_all_workers_done_refuted]: only workers registered
    before Stop's stop.Wait() returned are waited for (the sync.WaitGroup
    contract); RunWorker called later starts a worker that outlives
    "stopped".

    Liveness is partial too ([c15_stop_returns_partial]): it is proved that
    the Stop call that does the work reaches "stopped" and returns once every
    task function and every worker function has returned (or panicked) and
    no call is still on its way in -- the remaining deferred steps of their
    goroutines are enabled and finitely many, then Stop's own steps are.  With
    calls still on their way in, or bodies that never return, only the
    absence of a permanent block by the Stopper is proved
    ([c15_no_lost_wakeup], [c15_release_never_blocks]), not termination under
    a general fairness assumption.  Not proved either: that every history
    the model allows passes the oracle of Corr/C15.v (the oracle is tied to
    the code only through the cases of each run). *)
From Shk Require Import Base.Prelude Model.Stopper Corr.C15 Proofs.StopperProofs Proofs.StopperDrive
  Proofs.StopperLive Proofs.StopperFlush.
Open Scope nat_scope.

(** No task whose start was refused ever runs: its body has not begun, cannot
    begin, and the task is never touched again by any continuation. *)
Theorem c15_refused_never_runs : forall caps s i t,
  reachable caps s -> nth_error (tasks s) i = Some t ->
  (exists r, t_ret t = Some r /\ r <> RNil) ->
  t_begin_at t = None /\ step s (LBodyBegin i) = NotEnabled /\
  forall ls s', steps s ls = Some s' -> nth_error (tasks s') i = Some t.
Proof. exact refused_never_runs. Qed.

(** The task count is exactly the number of calls between runPrelude and
    runPostlude: a submission that was refused or returned an error is not
    counted, and the step by which a submission ends in an error -- from the
    select on ShouldQuiesce / ctx.Done(), ErrThrottled, the context test after
    the slot was obtained, or runPrelude saying no -- leaves the count as it
    was (so a refused submission cannot keep Stop waiting). *)
Theorem c15_errored_submission_not_counted : forall caps s,
  reachable caps s ->
  num_tasks s = Z.of_nat (count in_flight (tasks s)) /\
  forall i t, nth_error (tasks s) i = Some t -> (exists r, t_ret t = Some r /\ r <> RNil) ->
              in_flight t = false /\ pc t = TRefused.
Proof. exact task_count_exact. Qed.

Theorem c15_errored_submission_keeps_count : forall s l s' i t t',
  step s l = Next s' -> nth_error (tasks s) i = Some t -> pc t <> TRefused ->
  nth_error (tasks s') i = Some t' -> pc t' = TRefused ->
  num_tasks s' = num_tasks s.
Proof. exact errored_submission_keeps_count. Qed.

(** Every accepted task was accepted before the quiesce channel closed and
    has begun, ended and run its postlude before the stop channel closed. *)
Theorem c15_accepted_completes_before_stop_channel_closes : forall caps s ts i t a,
  reachable caps s -> g_stop_at (gh s) = Some ts ->
  nth_error (tasks s) i = Some t -> t_acc_at t = Some a ->
  exists q b e p, g_quiesce_at (gh s) = Some q /\ a < q /\
                  stamps t = (Some a, Some b, Some e, Some p) /\ a < b /\ b < e /\ e < p /\ p < ts.
Proof. exact accepted_completes_before_stop. Qed.

(** Closers: never called twice; called exactly once by the time the stopper
    reports itself stopped; a closer registered after the stop channel closed
    is called within AddCloser; one registered before is called by Stop after
    stop.Wait() returned and before [stopped] closes. *)
Theorem c15_closers_exactly_once : forall caps s c,
  reachable caps s -> In c (closers s) ->
  c_calls c <= 1 /\
  (stopped_ch s = true -> c_calls c = 1) /\
  (c_after_stop c = true -> c_calls c = 1 /\ c_called_at c = Some (c_added_at c)) /\
  (c_after_stop c = false -> forall td, g_stopped_at (gh s) = Some td ->
     exists tw tc, g_wgdone_at (gh s) = Some tw /\ c_called_at c = Some tc /\
                   c_added_at c < tw /\ tw < tc /\ tc < td).
Proof. exact closers_exactly_once. Qed.

(** Every worker registered before Stop's stop.Wait() returned has returned
    by then, which is before the closers and before [stopped]. *)
Theorem c15_workers_done_before_stopped : forall caps s w tw,
  reachable caps s -> In w (workers s) -> g_wgdone_at (gh s) = Some tw ->
  (w_counted w = true -> w_start_at w < tw /\ exists e, w_end_at w = Some e /\ w_start_at w < e /\ e < tw) /\
  (w_counted w = false -> tw <= w_start_at w) /\
  (forall td, g_stopped_at (gh s) = Some td -> tw < td).
Proof. exact workers_done_before_stopped. Qed.

(** quiesce -> tasks drained -> stop -> workers done -> closers -> stopped. *)
Theorem c15_phase_order : forall caps s,
  reachable caps s ->
  quiescing s = opt_b (g_quiesce_at (gh s)) /\ stop_ch s = opt_b (g_stop_at (gh s)) /\
  stopped_ch s = opt_b (g_stopped_at (gh s)) /\
  (forall d, g_drained_at (gh s) = Some d -> exists q, g_quiesce_at (gh s) = Some q /\ q <= d) /\
  (forall ts, g_stop_at (gh s) = Some ts -> exists d, g_drained_at (gh s) = Some d /\ d < ts) /\
  (forall tw, g_wgdone_at (gh s) = Some tw -> exists ts, g_stop_at (gh s) = Some ts /\ ts < tw) /\
  (forall tc, g_closers_at (gh s) = Some tc -> exists tw, g_wgdone_at (gh s) = Some tw /\ tw < tc) /\
  (forall td, g_stopped_at (gh s) = Some td -> exists tc, g_closers_at (gh s) = Some tc /\ tc < td) /\
  (forall d, g_drained_at (gh s) = Some d ->
     num_tasks s = 0%Z /\
     forall i t a, nth_error (tasks s) i = Some t -> t_acc_at t = Some a ->
                   exists p, t_post_at t = Some p /\ p < d).
Proof. exact phase_order. Qed.

(** A limited task holds its semaphore slot exactly while it runs: the length
    of each semaphore is the number of limited calls between their
    [sem <- struct{}{}] and their [<-sem] (an interval that contains the
    body, [c15_slot_interval]) and never exceeds the capacity. *)
Theorem c15_sem_held_exactly_while_running : forall caps s k cap len,
  reachable caps s -> nth_error (sems s) k = Some (cap, len) ->
  len = count (holds_slot_of k) (tasks s) /\ len <= cap /\ nth_error caps k = Some cap.
Proof. exact sem_held_exactly_while_running. Qed.

Theorem c15_slot_interval : forall t,
  is_limited (tk t) = true ->
  (pc t = TBody -> holds_slot t = true) /\
  (pc t = TDone \/ pc t = TRefused \/ pc t = TPost \/ pc t = TSem0 \/ pc t = TSemWait -> holds_slot t = false).
Proof. exact holds_slot_by_pc. Qed.

(** A task function that panics (label [LBodyPanic]; Stopper built with an
    OnPanic handler) is covered by the statement above like one that returns:
    the deferred [<-sem] and runPostlude run, after which the slot is free
    again and a further call with wait=false is admitted. *)
Definition panic_run : list label :=
  [LCallTask (KLimited 0 false None); LSemAcquire 0; LCtxCheck 0; LPrelude 0; LBodyBegin 0;
   LCallTask (KLimited 0 false None); LSemDefault 1;           (* full: ErrThrottled *)
   LBodyPanic 0; LSemRelease 0; LPostlude 0;
   LCallTask (KLimited 0 false None); LSemAcquire 2; LCtxCheck 2; LPrelude 2; LBodyBegin 2].

Example c15_panicking_task_releases_slot :
  exists s, steps (init [1]) panic_run = Some s /\
            map t_panicked (tasks s) = [true; false; false] /\
            map pc (tasks s) = [TDone; TRefused; TBody] /\
            map t_ret (tasks s) = [Some RNil; Some RThrottled; Some RNil] /\
            map snd (sems s) = [1] /\ num_tasks s = 1%Z /\
            (exists s1, steps (init [1]) (firstn 10 panic_run) = Some s1 /\
                        map snd (sems s1) = [0] /\ num_tasks s1 = 0%Z).
Proof.
  eexists. split; [vm_compute; reflexivity|]. vm_compute. repeat split.
  eexists. split; [reflexivity|]. split; reflexivity.
Qed.

(** No close of a closed channel and no negative WaitGroup counter, whatever
    the number of concurrent Stop and Quiesce callers. *)
Theorem c15_no_panic : forall caps s l, reachable caps s -> step s l <> Panics.
Proof. exact no_panic. Qed.

(** Quiesce's condition variable loses no wake-up; a slot holder's [<-sem]
    never blocks. *)
Theorem c15_no_lost_wakeup : forall caps s j th,
  reachable caps s -> nth_error (sthreads s) j = Some th -> sp th = SQWait ->
  (0 < num_tasks s)%Z /\ exists i t, nth_error (tasks s) i = Some t /\ in_flight t = true.
Proof. exact quiesce_waiter_has_task. Qed.

Theorem c15_release_never_blocks : forall caps s i t k cap len,
  reachable caps s -> nth_error (tasks s) i = Some t -> holds_slot_of k t = true ->
  nth_error (sems s) k = Some (cap, len) -> exists sm', sem_dec s k = Some sm'.
Proof. exact release_never_blocks. Qed.

(** Liveness (partial, see the header).  Once every task function and every
    worker function has returned or panicked ([bodies_over]: every call was
    refused or its f is over; no call is on its way in), there is a schedule
    -- the deferred [<-sem] / runPostlude / stop.Done() steps still due, in
    any order they are found, then the Stop caller's own steps -- along which
    the Stop call that does the work, wherever it stands (not yet entered,
    before or inside Quiesce, asleep in Cond.Wait, before close(stopper), in
    stop.Wait(), before or after the closers), reaches "stopped" and returns;
    every step of it is enabled when it is taken (nothing has to wait for
    anything else).  A later Stop call returns at its first step. *)
Theorem c15_stop_returns_partial : forall caps s j th,
  reachable caps s -> bodies_over s -> nth_error (sthreads s) j = Some th -> s_is_stop th = true ->
  (sp th = SEnter -> stop_called s = false /\ mu_held s = false) ->
  sp th <> SReturned ->
  exists ls s', steps s ls = Some s' /\ stopped_ch s' = true /\
                nth_error (sthreads s') j = Some {| s_is_stop := true; sp := SReturned |}.
Proof. exact stop_returns_when_bodies_over. Qed.

Theorem c15_later_stop_returns : forall caps s j th,
  reachable caps s -> nth_error (sthreads s) j = Some th -> sp th = SEnter ->
  stop_called s = true -> mu_held s = false ->
  exists s', step s (LStopEnter j) = Next s' /\
             nth_error (sthreads s') j = Some {| s_is_stop := true; sp := SReturned |}.
Proof. exact later_stop_returns. Qed.

(** The states the correspondence check compares with the real Stopper are
    reachable states of the model (so all of the above applies to them). *)
Theorem c15_driver_stays_reachable : forall caps ops,
  Forall (reachable caps) (visited (init caps) ops).
Proof. intros caps ops. apply visited_reachable. apply reach_init. Qed.

(** Boundary (why the worker statement is restricted): RunWorker called after
    stop.Wait() returned starts a worker that is still running when the
    stopper reports itself stopped. *)
Definition late_worker_run : list label :=
  [LWorkerStart; LCallStop; LStopEnter 0; LQuiesceSet 0; LStopClose 0; LWorkerBodyEnd 0; LWorkerDone 0;
   LWgWaitDone 0; LWorkerStart; LClosersRun 0; LStoppedClose 0].

Theorem c15_all_workers_done_refuted :
  exists s w td, steps (init []) late_worker_run = Some s /\ stopped_ch s = true /\
                 nth_error (workers s) 1 = Some w /\ wp w = WBody /\
                 g_stopped_at (gh s) = Some td /\ w_start_at w < td.
Proof.
  do 3 eexists. split; [vm_compute; reflexivity|]. vm_compute. repeat split. lia.
Qed.

(** Non-vacuity: a run in which a task is accepted and completes, a later one
    is refused, Stop waits for the task and the worker, a closer registered
    before the stop channel closed and one registered after are both called
    once, and the stopper ends stopped. *)
Definition full_run : list label :=
  [LCallTask KAsync; LPrelude 0; LBodyBegin 0; LAddCloser; LWorkerStart;
   LCallTask (KLimited 0 true None); LSemAcquire 1; LCtxCheck 1; LPrelude 1; LBodyBegin 1;
   LCallTask (KLimited 0 true None); LSemDefault 2;
   LCallStop; LStopEnter 0; LQuiesceSet 0; LCallStop; LStopEnter 1;
   LSemQuiesced 2; LCallTask KSync; LPrelude 3;
   LBodyEnd 0; LPostlude 0; LQRecheck 0; LBodyEnd 1; LSemRelease 1; LPostlude 1; LQRecheck 0;
   LStopClose 0; LAddCloser; LWorkerBodyEnd 0; LWorkerDone 0; LWgWaitDone 0; LClosersRun 0; LStoppedClose 0].

Example c15_nonvacuous :
  exists s, steps (init [1]) full_run = Some s /\
            stopped_ch s = true /\
            map t_ret (tasks s) = [Some RNil; Some RNil; Some RUnavailable; Some RUnavailable] /\
            map c_calls (closers s) = [1; 1] /\ map c_after_stop (closers s) = [false; true] /\
            map (fun th => sp th) (sthreads s) = [SReturned; SReturned] /\
            map snd (sems s) = [0] /\
            gh s = {| g_quiesce_at := Some 14; g_drained_at := Some 26; g_stop_at := Some 27;
                      g_wgdone_at := Some 31; g_closers_at := Some 32; g_stopped_at := Some 33 |}.
Proof. eexists. split; [vm_compute; reflexivity|]. vm_compute. repeat split. Qed.
